"""Seams: everything non-deterministic the engine touches goes through here.

* ``time.time/monotonic/perf_counter/sleep/time_ns`` are patched *on the time
  module itself* (function-local ``import time`` in the repo therefore sees
  the simulated clock too).  The harness keeps the real functions in ``REAL``.
* ``datetime`` class names inside every loaded ``stabilize.*`` module are
  replaced by ``SimDateTime`` whose ``now()/utcnow()`` read the simulated clock.
* ``stabilize.persistence.connection.sqlite3`` is replaced by a shim whose
  ``connect`` installs ``SimConnection`` as connection factory.  SimConnection
  overrides the SQL function ``datetime(...)`` (so ``datetime('now','utc')`` in
  queries *and* column defaults is simulated time), registers ``sim_ctx()`` for
  the audit triggers and routes execute/commit/rollback through the world.
* ``uuid.uuid4``, ``ulid.default_generator``, ``resilient_circuit`` back-off
  sleep and jitter are re-seeded per world.

The module is process-global state by nature: exactly one ``World`` is
``CURRENT`` at a time; with none, every seam falls through to the real thing.
"""
from __future__ import annotations

import datetime as _dt
import sqlite3 as _real_sqlite3
import sys
import time as _time
import types
import uuid as _uuid
from typing import Any

EPOCH_US = 1_893_456_000 * 1_000_000  # 2030-01-01T00:00:00Z


class SimCrash(BaseException):
    """kill -9 of the simulated worker process.  BaseException on purpose: the
    engine's ``except Exception`` blocks must not run."""


class SimStall(BaseException):
    """Raised inside a parked worker thread when the world is torn down."""


class _Real:
    time = _time.time
    monotonic = _time.monotonic
    perf_counter = _time.perf_counter
    sleep = _time.sleep
    time_ns = _time.time_ns
    monotonic_ns = _time.monotonic_ns
    uuid4 = _uuid.uuid4
    datetime = _dt.datetime
    connect = _real_sqlite3.connect


REAL = _Real

CURRENT: Any = None  # the active World, or None
_installed = False


# --------------------------------------------------------------------------
# clock
# --------------------------------------------------------------------------
class SimClock:
    """Integer microseconds since the Unix epoch; starts at 2030-01-01."""

    __slots__ = ("us", "mono_base")

    def __init__(self) -> None:
        self.us = EPOCH_US
        self.mono_base = EPOCH_US - 5_000_000_000  # monotonic() starts at 5000 s

    def now(self) -> float:
        return self.us / 1e6

    def advance(self, seconds: float) -> None:
        if seconds > 0:
            self.us += int(round(seconds * 1e6))

    def advance_us(self, us: int) -> None:
        self.us += us

    def set_at_least(self, us: int) -> None:
        if us > self.us:
            self.us = us

    def iso(self) -> str:
        return _fmt_sql(self.us)


def _fmt_sql(us: int) -> str:
    # what SQLite's datetime() prints: seconds resolution, truncated
    return REAL.datetime.fromtimestamp(us // 1_000_000, _dt.UTC).strftime("%Y-%m-%d %H:%M:%S")


def _t_time() -> float:
    w = CURRENT
    return w.clock.us / 1e6 if w is not None else REAL.time()


def _t_monotonic() -> float:
    w = CURRENT
    return (w.clock.us - w.clock.mono_base) / 1e6 if w is not None else REAL.monotonic()


def _t_time_ns() -> int:
    w = CURRENT
    return w.clock.us * 1000 if w is not None else REAL.time_ns()


def _t_monotonic_ns() -> int:
    w = CURRENT
    return (w.clock.us - w.clock.mono_base) * 1000 if w is not None else REAL.monotonic_ns()


def _t_sleep(d: float) -> None:
    w = CURRENT
    if w is None:
        REAL.sleep(d)
    else:
        w.on_sleep(float(d))


class _DTMeta(type(_dt.datetime)):
    def __instancecheck__(cls, inst: Any) -> bool:  # real datetimes are SimDateTimes too
        return isinstance(inst, REAL.datetime)


class SimDateTime(_dt.datetime, metaclass=_DTMeta):
    @classmethod
    def now(cls, tz: Any = None) -> _dt.datetime:  # type: ignore[override]
        w = CURRENT
        if w is None:
            return REAL.datetime.now(tz)
        us = w.clock.us
        base = REAL.datetime.fromtimestamp(us // 1_000_000, _dt.UTC).replace(microsecond=us % 1_000_000)
        if tz is None:
            return base.replace(tzinfo=None)  # TZ=UTC: naive local == naive utc
        return base.astimezone(tz)

    @classmethod
    def utcnow(cls) -> _dt.datetime:  # type: ignore[override]
        return cls.now(None)


def _sim_uuid4() -> _uuid.UUID:
    w = CURRENT
    if w is None:
        return REAL.uuid4()
    b = bytearray(w.id_bytes(16))
    b[6] = (b[6] & 0x0F) | 0x40
    b[8] = (b[8] & 0x3F) | 0x80
    return _uuid.UUID(bytes=bytes(b))


# --------------------------------------------------------------------------
# SQL datetime() override
# --------------------------------------------------------------------------
_pristine: Any = None


def _sql_datetime(*args: Any) -> Any:
    """Replacement for SQLite's datetime(); 'now' reads the simulated clock.

    Only the forms the engine uses are implemented natively: datetime('now'[,'utc'])
    and datetime(<iso text>).  Anything else is delegated to a pristine
    connection's built-in so that semantics are never invented here."""
    if not args:
        args = ("now",)
    a0 = args[0]
    w = CURRENT
    if a0 == "now" and w is not None:
        mods = [m for m in args[1:] if m != "utc"]  # TZ=UTC: 'utc' modifier is the identity
        base = _fmt_sql(w.clock.us)
        if not mods:
            return base
        return _delegate((base,) + tuple(mods))
    if isinstance(a0, str) and len(args) == 1:
        try:
            d = REAL.datetime.fromisoformat(a0)
        except ValueError:
            return _delegate(args)
        if d.tzinfo is not None:
            d = d.astimezone(_dt.UTC)
        return d.strftime("%Y-%m-%d %H:%M:%S")
    if a0 is None:
        return None
    return _delegate(args)


def _delegate(args: tuple[Any, ...]) -> Any:
    global _pristine
    if _pristine is None:
        _pristine = REAL.connect(":memory:", check_same_thread=False)
    q = "SELECT datetime(" + ",".join("?" for _ in args) + ")"
    return _pristine.execute(q, args).fetchone()[0]


def _sql_ctx() -> str:
    w = CURRENT
    return w.ctx_string() if w is not None else "noworld"


# --------------------------------------------------------------------------
# connection
# --------------------------------------------------------------------------
class SimConnection(_real_sqlite3.Connection):
    """Connection whose statements, commits and rollbacks are seen by the world."""

    def __init__(self, *a: Any, **kw: Any) -> None:
        super().__init__(*a, **kw)
        self.sim_world = CURRENT
        self.sim_owner = None  # worker id, set by world.register_conn
        self.sim_inc = -1
        self.sim_dead = False
        self.sim_harness = False
        _real_sqlite3.Connection.create_function(self, "datetime", -1, _sql_datetime)
        _real_sqlite3.Connection.create_function(self, "sim_ctx", 0, _sql_ctx)
        if self.sim_world is not None:
            self.sim_world.register_conn(self)

    # raw access for the world
    def raw_execute(self, sql: str, params: Any = ()) -> Any:
        return _real_sqlite3.Connection.execute(self, sql, params)

    def raw_commit(self) -> None:
        _real_sqlite3.Connection.commit(self)

    def raw_rollback(self) -> None:
        _real_sqlite3.Connection.rollback(self)

    def execute(self, sql: str, params: Any = ()) -> Any:  # type: ignore[override]
        w = self.sim_world
        if w is None or self.sim_harness:
            return _real_sqlite3.Connection.execute(self, sql, params)
        return w.on_execute(self, sql, params)

    def executescript(self, script: str) -> Any:  # type: ignore[override]
        w = self.sim_world
        if w is None or self.sim_harness:
            return _real_sqlite3.Connection.executescript(self, script)
        return w.on_executescript(self, script)

    def commit(self) -> None:
        w = self.sim_world
        if w is None or self.sim_harness:
            return _real_sqlite3.Connection.commit(self)
        return w.on_commit(self)

    def rollback(self) -> None:
        w = self.sim_world
        if w is None or self.sim_harness:
            return _real_sqlite3.Connection.rollback(self)
        return w.on_rollback(self)

    def close(self) -> None:
        try:
            _real_sqlite3.Connection.close(self)
        finally:
            self.sim_dead = True


def _shim_connect(database: Any, *a: Any, **kw: Any) -> Any:
    kw["factory"] = SimConnection
    w = CURRENT
    if w is not None:
        kw["timeout"] = w.busy_timeout_s  # 0 in the interleaving engine
    kw.setdefault("check_same_thread", False)
    return REAL.connect(database, *a, **kw)


def _make_sqlite_shim() -> types.ModuleType:
    shim = types.ModuleType("sqlite3_sim_shim")
    for k in dir(_real_sqlite3):
        if not k.startswith("__"):
            setattr(shim, k, getattr(_real_sqlite3, k))
    shim.connect = _shim_connect  # type: ignore[attr-defined]
    return shim


# --------------------------------------------------------------------------
# installation
# --------------------------------------------------------------------------
def install() -> None:
    """Install the process-global seams (idempotent)."""
    global _installed
    if _installed:
        return
    _installed = True
    _time.time = _t_time  # type: ignore[assignment]
    _time.monotonic = _t_monotonic  # type: ignore[assignment]
    _time.perf_counter = _t_monotonic  # type: ignore[assignment]
    _time.sleep = _t_sleep  # type: ignore[assignment]
    _time.time_ns = _t_time_ns  # type: ignore[assignment]
    _time.monotonic_ns = _t_monotonic_ns  # type: ignore[assignment]
    _uuid.uuid4 = _sim_uuid4  # type: ignore[assignment]

    import resilient_circuit.backoff as rb
    import resilient_circuit.retry as rr

    rr.sleep = _t_sleep  # type: ignore[attr-defined]
    rb.random = _JitterProxy()  # type: ignore[attr-defined]

    import stabilize  # noqa: F401  (load the package first)
    import stabilize.persistence.connection as pc

    pc.sqlite3 = _make_sqlite_shim()  # type: ignore[attr-defined]
    _import_all()
    patch_loaded_modules()
    _patch_message_created_at()


_SKIP = ("stabilize.cli", "stabilize.monitor", "stabilize.llm", "stabilize.tasks.http", "stabilize.tasks.docker",
         "stabilize.tasks.ssh", "stabilize.tasks.shell", "stabilize.tasks.highway", "stabilize.persistence.postgres",
         "stabilize.queue.postgres", "stabilize.events.store.postgres", "stabilize.tracing", "stabilize.launcher")


def _import_all() -> None:
    """Import every engine module up front so that no lazily imported module
    escapes the datetime patch."""
    import importlib
    import pkgutil

    import stabilize

    for m in pkgutil.walk_packages(stabilize.__path__, "stabilize."):
        if m.name.startswith(_SKIP):
            continue
        try:
            importlib.import_module(m.name)
        except Exception:
            pass


def patch_loaded_modules() -> int:
    """Replace the ``datetime`` class name in every loaded stabilize module."""
    n = 0
    for name, mod in list(sys.modules.items()):
        if mod is None or not (name == "stabilize" or name.startswith("stabilize.")):
            continue
        d = getattr(mod, "__dict__", None)
        if not d:
            continue
        if d.get("datetime") is REAL.datetime:
            d["datetime"] = SimDateTime
            n += 1
    return n


def unpatched_clock_refs() -> list[str]:
    """Self-test helper: stabilize modules still holding the real datetime class."""
    bad = []
    for name, mod in list(sys.modules.items()):
        if mod is None or not (name == "stabilize" or name.startswith("stabilize.")):
            continue
        d = getattr(mod, "__dict__", {})
        if d.get("datetime") is REAL.datetime:
            bad.append(name + ".datetime")
        for k in ("time", "sleep", "monotonic"):
            v = d.get(k)
            if v in (REAL.time, REAL.sleep, REAL.monotonic):
                bad.append(name + "." + k)
    return bad


def _patch_message_created_at() -> None:
    """``Message.created_at`` uses ``default_factory=datetime.now`` bound at class
    creation; the dataclass-generated ``__init__`` keeps it in a closure cell.
    Point those cells at the simulated clock so queue payloads are reproducible."""
    from stabilize.queue import messages as m

    real_now = REAL.datetime.now
    classes = set(m.MESSAGE_TYPES.values()) | {m.Message, m.WorkflowLevel, m.StageLevel, m.TaskLevel}
    for cls in classes:
        init = cls.__dict__.get("__init__")
        if init is None:
            continue
        for cell in init.__closure__ or ():
            try:
                v = cell.cell_contents
            except ValueError:
                continue
            if v == real_now:
                cell.cell_contents = SimDateTime.now
        f = cls.__dataclass_fields__.get("created_at")
        if f is not None and f.default_factory == real_now:
            f.default_factory = SimDateTime.now  # type: ignore[assignment]


class _JitterProxy:
    """Stands in for the ``random`` module inside resilient_circuit.backoff."""

    def uniform(self, a: float, b: float) -> float:
        w = CURRENT
        if w is None:
            import random

            return random.uniform(a, b)
        return w.jitter_rng.uniform(a, b)

    def random(self) -> float:
        w = CURRENT
        if w is None:
            import random

            return random.random()
        return w.jitter_rng.random()
