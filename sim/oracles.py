"""History oracles.  Everything here is a pure function of what the world
recorded (audit rows written by SQL triggers -- durable changes only --, commit
ranges, the execution ledger, the final tables) and of the program spec.  No
stabilize code is imported: the status vocabulary and the transition table are
frozen copies taken from the pinned commit.
"""
from __future__ import annotations

import bisect
import json
from typing import Any, Iterable

COMPLETE = {"SUCCEEDED", "FAILED_CONTINUE", "TERMINAL", "CANCELED", "STOPPED", "SKIPPED"}
HALT = {"TERMINAL", "CANCELED", "STOPPED"}
CONTINUABLE = {"SUCCEEDED", "FAILED_CONTINUE", "SKIPPED", "REDIRECT"}

# frozen copy of stabilize.models.status.VALID_TRANSITIONS (commit a347b9e)
FROZEN_TRANSITIONS: dict[str, set[str]] = {
    "NOT_STARTED": {"RUNNING", "CANCELED", "SKIPPED", "BUFFERED", "TERMINAL"},
    "BUFFERED": {"NOT_STARTED", "RUNNING", "CANCELED", "SKIPPED"},
    "RUNNING": {"SUCCEEDED", "FAILED_CONTINUE", "TERMINAL", "CANCELED", "PAUSED", "STOPPED", "SUSPENDED",
                "REDIRECT", "SKIPPED"},
    "PAUSED": {"RUNNING", "CANCELED", "STOPPED"},
    "SUSPENDED": {"RUNNING", "CANCELED", "STOPPED"},
    "REDIRECT": {"RUNNING", "SUCCEEDED", "CANCELED"},
    "SUCCEEDED": set(), "FAILED_CONTINUE": set(), "TERMINAL": set(), "CANCELED": set(), "STOPPED": set(),
    "SKIPPED": set(),
}
REARM_HANDLERS = {"JumpToStage", "RestartStage"}


def V(prop: str, cls: str, msg: str, **detail: Any) -> dict[str, Any]:
    """A violation record.  ``sig`` identifies the failing site for the known-findings file."""
    d = {"property": prop, "cls": cls, "msg": msg}
    d.update(detail)
    d.setdefault("sig", f"{prop}:{cls}")
    return d


def ctx_handler(ctx: str) -> str:
    p = (ctx or "").split("|")
    return p[2] if len(p) > 2 else ""


def ctx_msgid(ctx: str) -> str:
    p = (ctx or "").split("|")
    return p[3] if len(p) > 3 else ""


class History:
    """Indexed view of one run's durable history."""

    def __init__(self, world: Any, wf_id: str | None = None) -> None:
        self.w = world
        self.audit = world.audit()
        self.commits = list(world.commits)
        self.his = [c.hi for c in self.commits]
        self.ledger = list(world.ledger)
        self.wf_id = wf_id
        # stage id -> info
        self.stage_info: dict[str, dict[str, Any]] = {}
        self.task_info: dict[str, dict[str, Any]] = {}
        for r in self.audit:
            if r["kind"] == "stage_ins":
                e = r["extra"] or {}
                self.stage_info[r["row_id"]] = {
                    "ref": e.get("ref"), "parent": e.get("parent"), "owner": e.get("owner"),
                    "name": e.get("name"), "exec": e.get("exec"), "mutex": e.get("mutex"),
                    "choice": e.get("choice"), "ins_seq": r["seq"]}
            elif r["kind"] == "task_ins":
                e = r["extra"] or {}
                self.task_info[r["row_id"]] = {"stage": e.get("stage"), "name": e.get("name"),
                                               "impl": e.get("impl"), "ins_seq": r["seq"]}
        self.ref_to_id = {v["ref"]: k for k, v in self.stage_info.items()}

    def commit_of(self, seq: int) -> int | None:
        """Index (into self.commits) of the engine commit that made audit row ``seq`` durable."""
        i = bisect.bisect_left(self.his, seq)
        if i < len(self.commits) and self.commits[i].lo < seq <= self.commits[i].hi:
            return i
        return None

    def status_changes(self, kind: str) -> Iterable[dict[str, Any]]:
        for r in self.audit:
            if r["kind"] == kind and r["old"] != r["new"]:
                yield r

    def stage_status_at(self, stage_id: str, seq: int) -> str | None:
        """Durable status of a stage just *before* audit row ``seq``."""
        st = None
        for r in self.audit:
            if r["seq"] >= seq:
                break
            if r["row_id"] == stage_id:
                if r["kind"] == "stage_ins":
                    st = r["new"]
                elif r["kind"] == "stage":
                    st = r["new"]
        return st

    def key_of_stage(self, stage_id: str) -> str:
        i = self.stage_info.get(stage_id)
        if not i:
            return "?" + stage_id
        if i["parent"]:
            p = self.stage_info.get(i["parent"])
            return f"{p['ref'] if p else '?'}/{i['owner']}/{i['name']}"
        return str(i["ref"])


# ---------------------------------------------------------------------------
# C06 -- every durable status change is legal; completed is final
# ---------------------------------------------------------------------------
def check_transitions(h: History, live_table: dict[str, set[str]] | None = None) -> list[dict[str, Any]]:
    out = []
    if live_table is not None and live_table != FROZEN_TRANSITIONS:
        diff = {k: sorted(live_table.get(k, set()) ^ FROZEN_TRANSITIONS.get(k, set()))
                for k in set(live_table) | set(FROZEN_TRANSITIONS)
                if live_table.get(k, set()) != FROZEN_TRANSITIONS.get(k, set())}
        out.append(V("C06", "table-changed", f"published transition table differs from the frozen copy: {diff}"))
    for kind in ("stage", "task", "wf"):
        for r in h.status_changes(kind):
            old, new = r["old"], r["new"]
            if old is None or new is None:
                continue
            if new in FROZEN_TRANSITIONS.get(old, set()):
                continue
            handler = ctx_handler(r["ctx"])
            if handler in REARM_HANDLERS:
                if kind in ("stage", "task") and new == "NOT_STARTED":
                    continue
                if kind == "wf" and old in COMPLETE and new == "RUNNING":
                    continue
                if kind in ("stage", "task") and handler == "JumpToStage" and old in {"RUNNING", "REDIRECT", "NOT_STARTED"}:
                    # force-marking by a jump (source -> SUCCEEDED/TERMINAL, bypassed -> SKIPPED) uses legal edges;
                    # anything else falls through to the report below
                    pass
            ent = h.key_of_stage(r["row_id"]) if kind == "stage" else (
                (h.task_info.get(r["row_id"]) or {}).get("name", r["row_id"]) if kind == "task" else "workflow")
            out.append(V("C06", "illegal-transition",
                         f"{kind} {ent}: {old} -> {new} made durable by {handler or r['ctx']}",
                         sig=f"C06:{kind}:{old}->{new}:{handler}", seq=r["seq"]))
    return out


# ---------------------------------------------------------------------------
# C03 -- a stage never runs before its dependencies allow it
# ---------------------------------------------------------------------------
def check_join_at_claim(h: History, program: Any) -> list[dict[str, Any]]:
    """The only stage that may start without its join being met is the explicit target of a jump.  Which stage
    that is comes from the history (the StartStage that the JumpToStage handling queued), not from the engine's own
    `_jump_bypass` flag: a flag that leaks onto another stage must not buy that stage the exemption."""
    out = []
    status: dict[str, str] = {}
    jump_target: dict[str, int] = {}     # stage id -> number of pending "start as jump target" grants
    for r in h.audit:
        k = r["kind"]
        if k == "stage_ins":
            status[r["row_id"]] = r["new"]
            continue
        if k == "q_ins" and r["new"] == "StartStage" and ctx_handler(r["ctx"]) == "JumpToStage":
            try:
                tid = json.loads((r["extra"] or {}).get("payload") or "{}").get("stage_id")
            except Exception:
                tid = None
            if tid:
                jump_target[tid] = jump_target.get(tid, 0) + 1
            continue
        if k != "stage":
            continue
        sid = r["row_id"]
        old, new = r["old"], r["new"]
        if old == "NOT_STARTED" and new == "RUNNING":
            info = h.stage_info.get(sid) or {}
            ref = info.get("ref")
            if ref in program.stages and not info.get("parent"):
                e = r["extra"] or {}
                bypass = jump_target.get(sid, 0) > 0
                if bypass:
                    jump_target[sid] -= 1
                if not bypass:
                    sp = program.stages[ref]
                    deps = list(sp.get("deps") or [])
                    ups = {d: status.get(h.ref_to_id.get(d, ""), "?") for d in deps}
                    ok, why = _join_ok(sp, ups, e)
                    if not ok:
                        # was the join met when this handling *read* its upstreams?  The handler reads after it took the
                        # message (poll commit) and claims a few statements later; a concurrent JumpToStage that re-arms an
                        # upstream in between is not seen by the claim (its compare-and-swap covers the stage's own row)
                        mid = ctx_msgid(r["ctx"])
                        polled = max((q["seq"] for q in h.audit if q["kind"] == "q_lock" and q["row_id"] == mid and q["seq"] < r["seq"]
                                      and (q["extra"] or {}).get("a_new") != (q["extra"] or {}).get("a_old")), default=None)
                        raced = []
                        if polled is not None:
                            ups_then = dict(ups)
                            for q in h.audit:
                                if polled < q["seq"] < r["seq"] and q["kind"] == "stage" and q["new"] == "NOT_STARTED" \
                                        and ctx_handler(q["ctx"]) == "JumpToStage":
                                    d = (h.stage_info.get(q["row_id"]) or {}).get("ref")
                                    if d in ups_then:
                                        ups_then[d] = q["old"]
                                        raced.append(d)
                            # ... unless that same jump rewrote this stage's own row as well (the stage lies in the jump's
                            # re-armed set): then the claim's version check must have failed, and a claim that went through
                            # all the same is no race the engine is known to lose
                            own_rewritten = any(polled < q["seq"] < r["seq"] and q["kind"] == "stage" and q["row_id"] == sid
                                                and ctx_handler(q["ctx"]) == "JumpToStage" for q in h.audit)
                            if raced and not own_rewritten and _join_ok(sp, ups_then, e)[0]:
                                out.append(V("C03", "claimed-before-join",
                                             f"stage {ref} ({sp.get('join', 'AND')}) left NOT_STARTED with upstream {ups}: {why}; the join was "
                                             f"met when the handler read it, a concurrent jump re-armed {raced} before the claim commit",
                                             sig=f"C03:claim-raced-with-jump-rearm:{sp.get('join', 'AND')}", seq=r["seq"]))
                                status[sid] = new
                                continue
                        out.append(V("C03", "claimed-before-join",
                                     f"stage {ref} ({sp.get('join', 'AND')}) left NOT_STARTED with upstream {ups}: {why}",
                                     sig=f"C03:claim:{sp.get('join', 'AND')}", seq=r["seq"]))
        status[sid] = new
    # every task execution happens while its stage is durably RUNNING
    for e in h.ledger:
        sid = e["stage_id"]
        st = _status_at(h, sid, e["audit_seq"])
        if st == "NOT_STARTED":
            out.append(V("C03", "task-ran-in-unstarted-stage",
                         f"task {e['key']} executed while stage {h.key_of_stage(sid)} was durably NOT_STARTED",
                         sig="C03:task-in-NOT_STARTED", ledger_i=e["i"]))
    return out


def _status_at(h: History, stage_id: str, seq_inclusive: int) -> str | None:
    st = None
    for r in h.audit:
        if r["seq"] > seq_inclusive:
            break
        if r["row_id"] == stage_id and r["kind"] in ("stage_ins", "stage"):
            st = r["new"]
    return st


def _join_ok(sp: dict[str, Any], ups: dict[str, str], extra: dict[str, Any]) -> tuple[bool, str]:
    if not ups:
        return True, ""
    j = sp.get("join", "AND")
    cont = [d for d, s in ups.items() if s in CONTINUABLE]
    if j == "N_OF_M" and int(sp.get("thr", 0) or 0) > 0:
        thr = int(sp["thr"])
        return (len(cont) >= thr, f"{len(cont)} continuable < threshold {thr}")
    if j == "DISCRIMINATOR":
        return (len(cont) >= 1, "no upstream finished continuable")
    if j == "OR":
        act = extra.get("act_old")
        if isinstance(act, str):
            try:
                act = json.loads(act)
            except Exception:
                act = None
        if act is not None:
            need = [d for d in ups if d in set(act)]
            bad = [d for d in need if ups[d] not in CONTINUABLE]
            return (not bad, f"activated upstream not continuable: {bad}")
    bad = [d for d, s in ups.items() if s not in CONTINUABLE]
    return (not bad, f"upstream not continuable: {bad}")


# ---------------------------------------------------------------------------
# ledger uniqueness: no step is executed twice (C02 / C04 / C10 flavour chosen by caller)
# ---------------------------------------------------------------------------
def check_ledger_unique(h: History, prop: str, crash_marks: list[int] | None = None) -> list[dict[str, Any]]:
    """Each (task, iteration, step) appears once.  ``crash_marks`` are ledger lengths at crash
    time: an entry may be repeated once if the repeat straddles a crash (the in-flight step)."""
    out = []
    seen: dict[tuple[Any, ...], dict[str, Any]] = {}
    marks = sorted(crash_marks or [])
    budget = len(marks)
    used = 0
    for e in h.ledger:
        k = (e["key"], e["stage_id"], e.get("arm"), e["result"])
        p = seen.get(k)
        if p is not None:
            straddles = any(p["i"] < m <= e["i"] for m in marks)
            if straddles and used < budget:
                used += 1
            else:
                out.append(V(prop, "step-executed-twice",
                             f"task {e['key']} (stage run #{e.get('arm')}) step {e['result']} executed again "
                             f"(ledger #{p['i']} inc {p['inc']} and #{e['i']} inc {e['inc']})",
                             sig=f"{prop}:dup-exec:{e['result'].split(':')[0]}", ledger_i=e["i"]))
        seen[k] = e
    return out


def check_no_exec_after_result(h: History, prop: str) -> list[dict[str, Any]]:
    """After the commit in which a task durably left RUNNING for a complete status, it is not
    executed again until its stage is re-armed."""
    out = []
    timeline: dict[tuple[str, str], list[tuple[int, str]]] = {}
    for r in h.audit:
        if r["kind"] == "task" and r["old"] != r["new"]:
            info = h.task_info.get(r["row_id"]) or {}
            timeline.setdefault((info.get("stage", ""), info.get("name", r["row_id"])), []).append((r["seq"], r["new"]))
    for e in h.ledger:
        st = None
        for seq, new in timeline.get((e["stage_id"], e["key"]), []):
            if seq > e["audit_seq"]:
                break
            st = new
        if st in COMPLETE:
            out.append(V(prop, "executed-after-result",
                         f"task {e['key']} executed (ledger #{e['i']}) although its result {st} was already durable",
                         sig=f"{prop}:exec-after-result", ledger_i=e["i"]))
    return out


# ---------------------------------------------------------------------------
# C05 -- quiescent => finished or explicitly waiting
# ---------------------------------------------------------------------------
def check_quiescent(fs: dict[str, Any], cancel_requested: bool = False) -> list[dict[str, Any]]:
    out = []
    wf = fs["wf_status"]
    stages = fs["stages"]
    top = {k: v for k, v in stages.items() if not v["synthetic"]}
    st_all = {k: v["status"] for k, v in stages.items()}
    # a message in the dead-letter queue is not part of C05's statement (ContinueParentStage for a parent that a
    # halt canceled meanwhile is rejected by the state machine and dead-lettered, the workflow is final): callers
    # count it as a probe.  A workflow that is stuck *because* a message was dead-lettered is reported as stuck.
    if fs["queue"]:
        return out  # not quiescent; caller decides
    waiting = wf in ("BUFFERED", "PAUSED") or any(s == "SUSPENDED" for s in st_all.values())
    if wf not in COMPLETE and not waiting:
        out.append(V("C05", "stuck", f"queue drained but workflow is {wf} with stages {st_all}",
                     sig="C05:stuck:" + str(wf)))
    if wf == "SUCCEEDED":
        bad = {k: v["status"] for k, v in top.items() if v["status"] not in CONTINUABLE}
        if bad:
            out.append(V("C05", "succeeded-with-unfinished", f"workflow SUCCEEDED but top-level stages {bad}"))
    if any(v["status"] == "TERMINAL" for v in top.values()):
        ok = wf == "TERMINAL" or (cancel_requested and wf == "CANCELED")
        if not ok and wf in COMPLETE | {"RUNNING", "NOT_STARTED"} and not (wf not in COMPLETE and waiting):
            out.append(V("C05", "terminal-stage-not-failed",
                         f"a top-level stage is TERMINAL but the workflow is {wf}: "
                         f"{ {k: v['status'] for k, v in top.items()} }"))
    if wf in COMPLETE:
        running = {k: s for k, s in st_all.items() if s == "RUNNING"}
        if running:
            out.append(V("C05", "running-stage-in-finished-workflow",
                         f"workflow is {wf} but stages are still RUNNING: {running}",
                         sig="C05:running-after-finish:" + ("synthetic" if all(stages[k]["synthetic"] for k in running) else "top")))
    return out


# ---------------------------------------------------------------------------
# C11 -- mutex / deferred choice
# ---------------------------------------------------------------------------
def check_mutex_choice(h: History) -> list[dict[str, Any]]:
    out = []
    status: dict[str, str] = {}
    started_in_group: dict[tuple[str, str], set[str]] = {}
    # evaluate the mutex invariant at commit boundaries
    boundaries = set(h.his)
    last_seq = 0
    for r in h.audit:
        if r["kind"] == "stage_ins":
            status[r["row_id"]] = r["new"]
        elif r["kind"] == "stage":
            sid = r["row_id"]
            if r["old"] == "NOT_STARTED" and r["new"] == "RUNNING":
                info = h.stage_info.get(sid) or {}
                if info.get("choice"):
                    started_in_group.setdefault((info.get("exec"), info["choice"]), set()).add(sid)
            status[sid] = r["new"]
        last_seq = r["seq"]
        if last_seq in boundaries:
            _mutex_at(h, status, last_seq, out)
    _mutex_at(h, status, last_seq, out)
    for (ex, g), sids in started_in_group.items():
        if len(sids) > 1:
            out.append(V("C11", "choice-two-winners",
                         f"deferred-choice group {g}: stages {[h.key_of_stage(s) for s in sids]} both started"))
    return out


def _mutex_at(h: History, status: dict[str, str], seq: int, out: list[dict[str, Any]]) -> None:
    held: dict[tuple[str, str], list[str]] = {}
    for sid, st in status.items():
        if st == "RUNNING":
            info = h.stage_info.get(sid) or {}
            if info.get("mutex"):
                held.setdefault((info.get("exec"), info["mutex"]), []).append(sid)
    for (ex, m), sids in held.items():
        if len(sids) > 1:
            msg = f"mutex {m}: {[h.key_of_stage(s) for s in sids]} RUNNING together after audit seq {seq}"
            if not any(o["msg"].startswith(f"mutex {m}:") for o in out):
                out.append(V("C11", "mutex-two-running", msg))


# ---------------------------------------------------------------------------
# C08 (always-on part) -- message conservation from the insert/delete audit
# ---------------------------------------------------------------------------
def check_message_conservation(h: History, fs_queue_ids: set[int], dlq_orig_ids: set[int]) -> list[dict[str, Any]]:
    out = []
    ins: dict[str, dict[str, Any]] = {}
    deleted: dict[str, int] = {}
    dlq_for: dict[str, int] = {}
    for r in h.audit:
        if r["kind"] == "q_ins":
            ins[r["row_id"]] = r
        elif r["kind"] == "q_del":
            if r["row_id"] in deleted:
                out.append(V("C08", "deleted-twice", f"queue row {r['row_id']} deleted twice"))
            deleted[r["row_id"]] = r["seq"]
        elif r["kind"] == "dlq_ins":
            o = (r["extra"] or {}).get("orig")
            if o is not None:
                dlq_for[str(o)] = r["seq"]
    for rid in ins:
        in_q = int(rid) in fs_queue_ids
        gone = rid in deleted
        if in_q and gone:
            out.append(V("C08", "in-two-places", f"queue row {rid} both present and deleted"))
        if not in_q and not gone:
            out.append(V("C08", "vanished", f"queue row {rid} is neither queued nor deleted"))
    for rid, seq in dlq_for.items():
        if rid not in deleted:
            out.append(V("C08", "dlq-copy-without-delete", f"queue row {rid} copied to the DLQ but still queued"))
        else:
            ci, cj = h.commit_of(seq), h.commit_of(deleted[rid])
            if ci is not None and cj is not None and ci != cj:
                out.append(V("C08", "dlq-move-not-atomic", f"queue row {rid}: delete and DLQ insert in different commits"))
    return out


def always_on(h: History, program: Any, fs: dict[str, Any], quiescent: bool,
              cancel_requested: bool = False) -> list[dict[str, Any]]:
    v: list[dict[str, Any]] = []
    v += check_transitions(h)
    if program is not None:
        v += check_join_at_claim(h, program)
    v += check_mutex_choice(h)
    if quiescent:
        v += check_quiescent(fs, cancel_requested)
    return v


# ---------------------------------------------------------------------------
# diagnosis: a message of an earlier loop iteration changed state of a later one
# ---------------------------------------------------------------------------
def stale_applications(h: History) -> list[dict[str, Any]]:
    """Status changes made while handling a message that was queued *before* the affected stage was
    last re-armed (jump / restart) -- i.e. an instruction of iteration i acting on iteration i+1."""
    import json as _json

    created: dict[str, int] = {}
    stage_of: dict[str, str] = {}
    for r in h.audit:
        if r["kind"] == "q_ins":
            created[r["row_id"]] = r["seq"]
            try:
                stage_of[r["row_id"]] = _json.loads((r["extra"] or {}).get("payload") or "{}").get("stage_id") or ""
            except Exception:
                stage_of[r["row_id"]] = ""
            # a message queued while handling an older message *about the same stage (or its parent / child)* is as old
            # as that one: ContinueParentStage of iteration i spawns StartTask, which acts on iteration i+1
            pm = ctx_msgid(r["ctx"])
            if pm and pm in created and pm != r["row_id"]:
                a, b = stage_of.get(pm, ""), stage_of[r["row_id"]]
                rel = a and b and (a == b or (h.stage_info.get(a) or {}).get("parent") == b or (h.stage_info.get(b) or {}).get("parent") == a)
                if rel and ctx_handler(r["ctx"]) not in REARM_HANDLERS:
                    created[r["row_id"]] = min(created[r["row_id"]], created[pm])
    rearm: dict[str, list[int]] = {}
    out = []
    for r in h.audit:
        k = r["kind"]
        if k not in ("stage", "task") or r["old"] == r["new"]:
            continue
        sid = r["row_id"] if k == "stage" else (h.task_info.get(r["row_id"]) or {}).get("stage", "")
        if k == "stage" and r["new"] == "NOT_STARTED" and r["old"] != "NOT_STARTED":
            rearm.setdefault(sid, []).append(r["seq"])
            continue
        mid = ctx_msgid(r["ctx"])
        handler = ctx_handler(r["ctx"])
        if not mid or mid not in created or handler in REARM_HANDLERS:
            continue
        c = created[mid]
        parent = (h.stage_info.get(sid) or {}).get("parent") or ""
        if any(c < a < r["seq"] for a in rearm.get(sid, []) + rearm.get(parent, [])):
            out.append({"handler": handler, "kind": k, "old": r["old"], "new": r["new"], "seq": r["seq"],
                        "stage": h.key_of_stage(sid)})
    # a task *executed* under a message of an earlier iteration (a delayed RunTask retry of iteration i delivered
    # while the task is RUNNING again in iteration i+1): no status changes, but user code runs
    for e in h.ledger:
        mid = str(e.get("msg") or "")
        if mid not in created:
            continue
        sid = e["stage_id"]
        parent = (h.stage_info.get(sid) or {}).get("parent") or ""
        if any(created[mid] < a <= e["audit_seq"] for a in rearm.get(sid, []) + rearm.get(parent, [])):
            out.append({"handler": "RunTask", "kind": "execution", "old": "-", "new": e["key"], "seq": e["audit_seq"],
                        "stage": h.key_of_stage(sid)})
    out.sort(key=lambda x: x["seq"])
    return out


def jump_stale_rearm(h: History) -> list[dict[str, Any]]:
    """Jumps that re-armed a stage but not its synthetic children, because those children were created *after* the jump
    handler had taken its message and computed what to reset (another worker started, planned and even finished the
    stage in between; the jump's writes are version-checked on freshly loaded rows, so nothing fails): the re-armed
    stage later sends StartStage to children that are still SUCCEEDED and waits for them forever."""
    polled: dict[str, int] = {}
    for r in h.audit:
        if r["kind"] == "q_lock" and (r["extra"] or {}).get("a_new") != (r["extra"] or {}).get("a_old"):
            polled[r["row_id"]] = r["seq"]            # last poll of each message
    by_msg: dict[str, list[dict[str, Any]]] = {}
    for r in h.audit:
        if r["kind"] == "stage" and ctx_handler(r["ctx"]) == "JumpToStage" and r["new"] == "NOT_STARTED":
            by_msg.setdefault(ctx_msgid(r["ctx"]), []).append(r)
    out = []
    for mid, rows in by_msg.items():
        p0 = polled.get(mid)
        if p0 is None:
            continue
        touched = {r["row_id"] for r in rows}
        c0 = min(r["seq"] for r in rows)
        for r in rows:
            for cid, info in h.stage_info.items():
                if info.get("parent") == r["row_id"] and p0 < info.get("ins_seq", 0) < c0 and cid not in touched:
                    out.append({"stage": h.key_of_stage(r["row_id"]), "child": h.key_of_stage(cid), "seq": r["seq"]})
    return out


def skip_overtaken(h: History) -> list[str]:
    """Stages that were claimed (NOT_STARTED -> RUNNING) while a SkipStage message for them was live in the queue: an
    OR-split did not activate the branch and queued SkipStage, but a StartStage that found the stage "ready" was
    delivered first - the deactivated branch runs."""
    import json as _json

    live: dict[str, str] = {}      # queue row id -> stage id, for SkipStage rows
    queued_by: dict[str, str] = {}  # queue row id of a StartStage -> what queued it
    out = []
    for r in h.audit:
        if r["kind"] == "q_ins" and r["new"] == "StartStage":
            queued_by[str(r["row_id"])] = ctx_handler(r["ctx"])
        if r["kind"] == "q_ins" and r["new"] == "SkipStage":
            try:
                live[r["row_id"]] = _json.loads((r["extra"] or {}).get("payload") or "{}").get("stage_id") or ""
            except Exception:
                pass
        elif r["kind"] == "q_del":
            live.pop(r["row_id"], None)
        elif r["kind"] == "stage" and r["old"] == "NOT_STARTED" and r["new"] == "RUNNING" and r["row_id"] in live.values():
            by = queued_by.get(ctx_msgid(r["ctx"]), "")
            out.append(h.key_of_stage(r["row_id"]) + ("<-sweep" if by == "recovery" else ""))
    return out


def recovery_duplicates(h: History) -> list[dict[str, Any]]:
    """Messages a recovery sweep queued for a *task* that already had a live message in the queue at that moment
    (delivered-but-unacknowledged and delayed rows are live too): the sweep's pending-message guard exists to prevent
    exactly that - two live RunTask chains make the task execute (poll, retry) extra times."""
    import json as _json

    live: dict[str, tuple[str, str]] = {}     # queue row id -> (type, task id)
    out = []
    for r in h.audit:
        if r["kind"] == "q_del":
            live.pop(r["row_id"], None)
            continue
        if r["kind"] != "q_ins":
            continue
        try:
            p = _json.loads((r["extra"] or {}).get("payload") or "{}")
        except Exception:
            p = {}
        tid = p.get("task_id") or ""
        if tid and ctx_handler(r["ctx"]) == "recovery" and r["new"] in ("RunTask", "StartTask"):
            twins = [t for (t, x) in live.values() if x == tid and t in ("RunTask", "StartTask", "CompleteTask")]
            if twins:
                out.append({"task": (h.task_info.get(tid) or {}).get("name", tid), "queued": r["new"], "already": twins, "seq": r["seq"]})
        live[r["row_id"]] = (str(r["new"]), tid)
    return out


def sweep_in_claim_plan_window(h: History) -> list[dict[str, Any]]:
    """Recovery sweeps that queued work for a stage *between* a StartStage handling's claim commit and the last
    commit of the same handling (plan: tasks, synthetic before-stages, first StartTask / StartStage): the sweep saw
    a RUNNING stage whose planning was not durable yet and started it itself."""
    import json as _json

    claims: dict[str, dict[str, Any]] = {}      # message id -> claim row
    last: dict[str, int] = {}                   # message id -> last audit seq written under it (handler part)
    for r in h.audit:
        hd, mid = ctx_handler(r["ctx"]), ctx_msgid(r["ctx"])
        if hd != "StartStage" or not mid:
            continue
        if r["kind"] == "stage" and r["old"] == "NOT_STARTED" and r["new"] == "RUNNING":
            claims[mid] = r
        if mid in claims and r["kind"] in ("stage", "stage_ins", "task_ins", "q_ins"):
            last[mid] = r["seq"]
    out = []
    status: dict[str, str] = {}
    for r in h.audit:
        if r["kind"] in ("stage_ins", "stage"):
            status[r["row_id"]] = r["new"]
        if r["kind"] != "q_ins" or ctx_handler(r["ctx"]) != "recovery":
            continue
        try:
            p = _json.loads((r["extra"] or {}).get("payload") or "{}")
        except Exception:
            p = {}
        sid = p.get("stage_id")
        hit = False
        for mid, c in claims.items():
            if c["row_id"] == sid and c["seq"] < r["seq"] < last.get(mid, 0):
                out.append({"stage": h.key_of_stage(sid), "queued": r["new"], "seq": r["seq"], "msg": mid, "how": "inside"})
                hit = True
        if not hit and r["new"] == "StartTask":
            # the sweep decided on a read taken inside that window and committed its StartTask after the plan: the
            # stage's before-stages exist by now and are not finished, yet its first task is being started
            # ... which is only possible when the sweep overlapped the handling that stored them: the before-stage
            # rows became durable after this sweep had begun (a sweep that runs between two deliveries of a single
            # worker has seen them, and starting the parent's task then is plainly wrong, not this race)
            began = max((m[0] for m in getattr(h.w, "sweep_marks", []) if m[0] < r["seq"]), default=None)
            pending = [k for k, info in h.stage_info.items()
                       if info.get("parent") == sid and str(info.get("owner") or "").endswith("BEFORE")
                       and info.get("ins_seq", 0) < r["seq"] and status.get(k) not in COMPLETE
                       and began is not None and info.get("ins_seq", 0) > began]
            if pending:
                out.append({"stage": h.key_of_stage(sid), "queued": r["new"], "seq": r["seq"], "msg": "-", "how": "stale-read"})
                hit = True
        if not hit and r["new"] in ("StartTask", "RunTask") and sid:
            # same non-atomic check-and-push, other victim: the stage was RUNNING when this sweep began and a jump re-armed
            # it (NOT_STARTED) before the sweep's push landed - the task is started inside a stage that has not started
            began2 = max((m[0] for m in getattr(h.w, "sweep_marks", []) if m[0] < r["seq"]), default=None)
            if began2 is not None and status.get(sid) == "NOT_STARTED" and h.stage_status_at(sid, began2 + 1) == "RUNNING":
                out.append({"stage": h.key_of_stage(sid), "queued": r["new"], "seq": r["seq"], "msg": "-", "how": "rearmed-during-sweep"})
    return out


def rearmed_after_children(h: History, fs: dict[str, Any]) -> list[str]:
    """Synthetic after- / on-failure stages that a jump re-armed (non-NOT_STARTED -> NOT_STARTED under JumpToStage), that
    were never started again and whose parent is RUNNING at the end: CompleteStage of the failed parent counts every
    after-child that is not complete as "in flight, it will drive the parent" - a re-armed leftover never will."""
    last: dict[str, dict[str, Any]] = {}
    born: dict[str, int] = {}
    parent_rearm: dict[str, int] = {}     # stage id -> seq of the last jump re-arm of that stage
    for r in h.audit:
        if r["kind"] == "stage_ins":
            born[r["row_id"]] = r["seq"]
        if r["kind"] == "stage" and r["old"] != r["new"]:
            last[r["row_id"]] = r
            if r["new"] == "NOT_STARTED" and ctx_handler(r["ctx"]) == "JumpToStage":
                parent_rearm[r["row_id"]] = r["seq"]
    out = []
    final = {v["id"]: (k, v) for k, v in fs["stages"].items()}
    for sid, (_k, v) in final.items():
        info = h.stage_info.get(sid) or {}
        if not info.get("parent") or not str(info.get("owner") or "").endswith("AFTER"):
            continue
        par = final.get(info["parent"])
        if par is None or par[1]["status"] != "RUNNING" or v["status"] != "NOT_STARTED":
            continue
        r = last.get(sid)
        if r is not None and r["new"] == "NOT_STARTED" and ctx_handler(r["ctx"]) == "JumpToStage":
            out.append(h.key_of_stage(sid))
        elif r is None and sid in born and parent_rearm.get(info["parent"], -1) > born[sid]:
            # planned, its StartStage still on the way when the jump re-armed the parent: that StartStage finds the
            # parent NOT_STARTED and is dropped, the child is a NOT_STARTED leftover all the same
            out.append(h.key_of_stage(sid))
    return sorted(out)


def jump_path_not_rearmed(h: History, prog: Any) -> list[dict[str, Any]]:
    """Backward jumps that re-armed the jumping stage but left a *completed* stage on the way from the target back
    to it untouched (a fan-in with an upstream outside the re-armed set is deliberately not reset): when the
    target's branch finishes again, the StartStage for that stage is ignored ("already SUCCEEDED") and nothing
    ever restarts the jumping stage - the workflow stays RUNNING with an empty queue."""
    out: list[dict[str, Any]] = []
    if prog is None:
        return out
    status: dict[str, str] = {}
    by_commit: dict[tuple[str, int], list[dict[str, Any]]] = {}
    for r in h.audit:
        if r["kind"] == "stage_ins":
            status[r["row_id"]] = r["new"]
            continue
        if r["kind"] != "stage":
            continue
        if ctx_handler(r["ctx"]) == "JumpToStage" and r["new"] == "NOT_STARTED" and r["old"] != "NOT_STARTED":
            ci = h.commit_of(r["seq"])
            by_commit.setdefault((ctx_msgid(r["ctx"]), ci if ci is not None else -1), []).append(dict(r, before=dict(status)))
        status[r["row_id"]] = r["new"]
    for (_mid, _ci), rows in by_commit.items():
        rearmed = {h.key_of_stage(r["row_id"]) for r in rows}
        rearmed_top = {k for k in rearmed if k in prog.stages}
        # the jumping stage is the re-armed stage that was RUNNING with everything it depends on done: take every
        # re-armed stage as a candidate source, the diagnosis only needs one witness
        before = rows[0]["before"]
        st_by_key = {h.key_of_stage(sid): st for sid, st in before.items()}
        for src in sorted(rearmed_top):
            if st_by_key.get(src) != "RUNNING":
                continue
            for tgt in sorted(rearmed_top):
                if tgt == src or tgt not in prog.ancestors(src):
                    continue
                between = (prog.descendants(tgt) & prog.ancestors(src)) - rearmed_top
                stuck = sorted(x for x in between if st_by_key.get(x) in COMPLETE)
                if stuck:
                    out.append({"source": src, "target": tgt, "not_rearmed": stuck, "seq": rows[0]["seq"]})
    return out


def plan_lost_after_claim(h: History) -> list[dict[str, Any]]:
    """StartStage handlings that claimed a stage (durable NOT_STARTED->RUNNING) and were acknowledged, but
    never committed the plan (no second stage write / no queued work under the same message): the stage is
    left RUNNING with nothing scheduled.  Happens when the plan commit loses an optimistic-lock race to a
    concurrent writer of the same stage row and the handler swallows the ConcurrencyError."""
    out = []
    claims: dict[str, dict[str, Any]] = {}
    follow: dict[str, int] = {}
    acked: set[str] = set()
    for r in h.audit:
        hd, mid = ctx_handler(r["ctx"]), ctx_msgid(r["ctx"])
        if r["kind"] == "q_del":
            acked.add(r["row_id"])
        if hd != "StartStage" or not mid:
            continue
        if r["kind"] == "stage" and r["old"] == "NOT_STARTED" and r["new"] == "RUNNING":
            claims[mid] = r
        elif mid in claims and r["kind"] == "stage" and r["row_id"] == claims[mid]["row_id"]:
            # the plan commit always stores the claimed stage again (the processor-level processed mark that
            # follows every handler return does not count)
            follow[mid] = follow.get(mid, 0) + 1
    for mid, r in claims.items():
        if follow.get(mid, 0) == 0 and mid in acked:
            out.append({"stage": h.key_of_stage(r["row_id"]), "msg": mid, "seq": r["seq"]})
    return out
