"""Driver / worker plumbing shared by every check.

A check module (checks/cXX.py) provides

    PROPERTY, LEVEL, RULE, ASSUMPTIONS, TECHNIQUE
    budget(tier) -> {"runs": int | None, "seconds": float, "chunk": int}
    run_one(seed, tier) -> outcome dict
    replay_one(rep) -> list[violation]

``outcome`` = {"violations": [...], "execs": int, "digests": {digest: nontrivial_bool},
               "stats": {name: number}, "faults": {...}, "probes": {...}, "samples": [...], "sim_us": int}
Each violation carries ``replay`` -- a JSON document from which ``replay_one``
re-executes exactly the failing execution (seed + choice trace + forced picks).

Process model: the driver partitions run indices into chunks; every chunk is a
fresh interpreter (``python -m sim.harness --worker ...``) started with the
chunk's PYTHONHASHSEED, TZ=UTC.  Exit codes: 0 held, 1 violation (with a
``VIOLATION property=<id> replay=<path>`` line), 2 harness trouble.
"""
from __future__ import annotations

import concurrent.futures as cf
import hashlib
import importlib
import json
import os
import subprocess
import sys
import time as _time
import traceback
from typing import Any

ROOT = os.path.dirname(os.path.dirname(os.path.abspath(__file__)))
PY = os.environ.get("VERIF_PYTHON", "/venv/bin/python")
HASHSEEDS = 4

_now = _time.time          # captured before seams patch the time module
_mono = _time.monotonic


def past_deadline() -> bool:
    """Checks whose single seeded run contains many executions (crash sweeps) stop sweeping at the batch deadline."""
    d = os.environ.get("VERIF_DEADLINE")
    return bool(d) and _now() > float(d)


def derive_seed(base: int, check: str, idx: int) -> int:
    h = hashlib.sha256(f"{base}:{check}:{idx}".encode()).digest()
    return int.from_bytes(h[:8], "big") >> 1


def hashseed_for_chunk(base: int, chunk_index: int) -> int:
    h = hashlib.sha256(f"hs:{base}:{chunk_index % HASHSEEDS}".encode()).digest()
    return int.from_bytes(h[:4], "big")


def repo_path() -> str:
    return os.environ.get("VERIF_REPO", "/repo")


def setup_sys_path() -> None:
    src = os.path.join(repo_path(), "src")
    if src not in sys.path:
        sys.path.insert(0, src)
    if ROOT not in sys.path:
        sys.path.insert(0, ROOT)
    # make sure an already-imported stabilize really comes from that tree
    import stabilize

    f = os.path.realpath(stabilize.__file__)
    if not f.startswith(os.path.realpath(src)):
        raise RuntimeError(f"stabilize imported from {f}, expected under {src}")


def load_check(check: str) -> Any:
    return importlib.import_module("checks." + check.lower())


# ---------------------------------------------------------------------------
# worker
# ---------------------------------------------------------------------------
def worker_main(argv: list[str]) -> int:
    import faulthandler
    import logging

    check, tier, base, start, count, deadline, out = argv[0], argv[1], int(argv[2]), int(argv[3]), int(argv[4]), float(argv[5]), argv[6]
    logging.disable(logging.CRITICAL)
    setup_sys_path()
    mod = load_check(check)
    agg = new_agg()
    per_run_limit = float(os.environ.get("VERIF_RUN_TIMEOUT_S", "600"))
    hs = int(os.environ.get("PYTHONHASHSEED", "0") or 0)
    done = 0
    os.environ["VERIF_DEADLINE"] = str(deadline)
    for i in range(start, start + count):
        if _now() > deadline:
            break
        seed = derive_seed(base, check, i)
        faulthandler.dump_traceback_later(per_run_limit, exit=True)
        try:
            o = mod.run_one(seed, tier)
        except BaseException as e:  # harness trouble is not a violation
            agg["harness_errors"].append({"run": i, "seed": seed, "error": "".join(traceback.format_exception(e))[-3000:]})
            faulthandler.cancel_dump_traceback_later()
            if len(agg["harness_errors"]) > 5:
                break
            continue
        faulthandler.cancel_dump_traceback_later()
        for v in o.get("violations", []):
            v.setdefault("replay", {})
            v["replay"].setdefault("check", check)
            v["replay"].setdefault("seed", seed)
            v["replay"]["hashseed"] = hs
            v["replay"]["run_index"] = i
        merge_outcome(agg, o)
        done += 1
    agg["runs"] = done
    if agg.get("state_hashes"):
        agg["state_hashes"] = sorted(agg["state_hashes"])
    with open(out, "w") as f:
        json.dump(agg, f, default=str)
    return 0


def new_agg() -> dict[str, Any]:
    return {"runs": 0, "execs": 0, "violations": [], "digests": {}, "stats": {}, "faults": {}, "probes": {},
            "samples": [], "sim_us": 0, "harness_errors": [], "inconclusive": 0}


def merge_outcome(agg: dict[str, Any], o: dict[str, Any]) -> None:
    agg["execs"] += int(o.get("execs", 1))
    if o.get("state_hashes"):
        cur = set(agg.get("state_hashes") or [])
        cur |= set(o["state_hashes"])
        agg["state_hashes"] = cur
    agg["sim_us"] += int(o.get("sim_us", 0))
    agg["inconclusive"] += int(o.get("inconclusive", 0))
    for v in o.get("violations", []):
        if len(agg["violations"]) < 50:
            agg["violations"].append(v)
    for d, nt in (o.get("digests") or {}).items():
        agg["digests"][d] = bool(agg["digests"].get(d)) or bool(nt)
    for key in ("stats", "faults", "probes"):
        for k, n in (o.get(key) or {}).items():
            agg[key][k] = agg[key].get(k, 0) + n
    for s in o.get("samples") or []:
        if len(agg["samples"]) < 3:
            agg["samples"].append(s)


def merge_agg(a: dict[str, Any], b: dict[str, Any]) -> None:
    a["runs"] += b.get("runs", 0)
    if b.get("state_hashes"):
        cur = a.get("state_hashes")
        if not isinstance(cur, set):
            cur = set(cur or [])
        cur |= set(b["state_hashes"])
        a["state_hashes"] = cur
    a["execs"] += b.get("execs", 0)
    a["sim_us"] += b.get("sim_us", 0)
    a["inconclusive"] += b.get("inconclusive", 0)
    a["violations"].extend(b.get("violations", []))
    a["harness_errors"].extend(b.get("harness_errors", []))
    for d, nt in (b.get("digests") or {}).items():
        a["digests"][d] = bool(a["digests"].get(d)) or bool(nt)
    for key in ("stats", "faults", "probes"):
        for k, n in (b.get(key) or {}).items():
            a[key][k] = a[key].get(k, 0) + n
    for s in b.get("samples") or []:
        if len(a["samples"]) < 4:
            a["samples"].append(s)


# ---------------------------------------------------------------------------
# replay (fresh interpreter with the recorded hash seed)
# ---------------------------------------------------------------------------
def replay_worker_main(argv: list[str]) -> int:
    import logging

    path, out = argv[0], argv[1]
    logging.disable(logging.CRITICAL)
    setup_sys_path()
    rep = json.load(open(path))
    r = rep.get("replay", rep)
    mod = load_check(r["check"])
    try:
        vs = mod.replay_one(r)
    except BaseException as e:
        json.dump({"error": "".join(traceback.format_exception(e))[-3000:]}, open(out, "w"))
        return 0
    json.dump({"violations": vs}, open(out, "w"), default=str)
    return 0


def _env(hashseed: int) -> dict[str, str]:
    env = dict(os.environ)
    env["PYTHONHASHSEED"] = str(hashseed)
    env["TZ"] = "UTC"
    env["PYTHONPATH"] = ROOT + os.pathsep + env.get("PYTHONPATH", "")
    env.setdefault("PYTHONDONTWRITEBYTECODE", "1")
    return env


def replay_file(path: str, timeout: float = 300.0) -> dict[str, Any]:
    rep = json.load(open(path))
    r = rep.get("replay", rep)
    out = path + ".out." + str(os.getpid())
    try:
        p = subprocess.run([PY, "-m", "sim.harness", "--replay-worker", path, out], cwd=ROOT,
                           env=_env(int(r.get("hashseed", 0))), timeout=timeout, capture_output=True, text=True)
        if not os.path.exists(out):
            return {"error": f"replay worker produced no output (rc={p.returncode}): {p.stderr[-2000:]}"}
        return json.load(open(out))
    except subprocess.TimeoutExpired:
        return {"error": "replay timed out"}
    finally:
        if os.path.exists(out):
            os.unlink(out)


def same_violation(v: dict[str, Any], w: dict[str, Any]) -> bool:
    return v.get("property") == w.get("property") and v.get("sig") == w.get("sig")


# ---------------------------------------------------------------------------
# minimisation: delta debugging over the choice trace of one failing execution
# ---------------------------------------------------------------------------
def minimise_in_process(mod: Any, rep: dict[str, Any], target: dict[str, Any], budget_s: float) -> dict[str, Any]:
    """Shrink rep['trace'] (list of [label, value]) while the same violation recurs.
    Zeroing a choice == taking the boring default; truncating == defaults from there on."""
    t_end = _mono() + budget_s
    trace = [list(x) for x in (rep.get("trace") or [])]
    if not trace:
        return rep

    def fails(tr: list[list[Any]]) -> bool:
        r2 = dict(rep)
        r2["trace"] = tr
        try:
            vs = mod.replay_one(r2)
        except BaseException:
            return False
        return any(same_violation(v, target) for v in vs)

    # 1. shortest failing prefix (binary search, then verify)
    lo, hi = 0, len(trace)
    while lo < hi and _mono() < t_end:
        mid = (lo + hi) // 2
        if fails(trace[:mid]):
            hi = mid
        else:
            lo = mid + 1
    if hi < len(trace) and fails(trace[:hi]):
        trace = trace[:hi]
    # 2. zero out chunks of non-default choices (ddmin over the set of non-zero positions)
    nz = [i for i, (_, v) in enumerate(trace) if v != 0]
    n = 2
    while nz and _mono() < t_end:
        size = max(1, len(nz) // n)
        chunks = [nz[i:i + size] for i in range(0, len(nz), size)]
        reduced = False
        for c in chunks:
            if _mono() >= t_end:
                break
            cand = [list(x) for x in trace]
            for i in c:
                cand[i][1] = 0
            if fails(cand):
                trace = cand
                nz = [i for i in nz if i not in set(c)]
                n = max(n - 1, 2)
                reduced = True
                break
        if not reduced:
            if size == 1:
                break
            n = min(len(nz), n * 2)
    # 3. lower remaining values
    for i in nz:
        if _mono() >= t_end:
            break
        v = trace[i][1]
        for smaller in range(1, v):
            cand = [list(x) for x in trace]
            cand[i][1] = smaller
            if fails(cand):
                trace = cand
                break
    out = dict(rep)
    out["trace"] = trace
    out["minimised"] = True
    out["nonzero_choices"] = sum(1 for _, v in trace if v != 0)
    return out


def minimise_worker_main(argv: list[str]) -> int:
    import logging

    path, out, budget = argv[0], argv[1], float(argv[2])
    logging.disable(logging.CRITICAL)
    setup_sys_path()
    doc = json.load(open(path))
    mod = load_check(doc["replay"]["check"])
    r2 = minimise_in_process(mod, doc["replay"], doc["violation"], budget)
    doc2 = dict(doc)
    doc2["replay"] = r2
    doc2["minimised_from"] = os.path.basename(path)
    json.dump(doc2, open(out, "w"), indent=1, default=str)
    return 0


# ---------------------------------------------------------------------------
# known findings
# ---------------------------------------------------------------------------
def load_known() -> list[dict[str, Any]]:
    p = os.path.join(ROOT, "known_findings.jsonl")
    out = []
    if os.path.exists(p):
        for line in open(p):
            line = line.strip()
            if line and not line.startswith("#"):
                out.append(json.loads(line))
    return out


def out_dir() -> str:
    """Where replays/ and evidence/ go: /verif for the repository itself; a run against any other tree
    (VERIF_REPO: a scratch copy with a seeded change) must not overwrite the evidence of /repo."""
    if os.environ.get("VERIF_OUT"):
        return os.environ["VERIF_OUT"]
    if os.path.realpath(repo_path()) != os.path.realpath("/repo"):
        return os.path.join(ROOT, "scratch", "alt-tree")
    return ROOT


def known_match(v: dict[str, Any], known: list[dict[str, Any]]) -> dict[str, Any] | None:
    """A violation is a listed finding when the entry's property matches and every ``match`` regex
    fully matches the violation's field (for list-valued fields: some element).  Entries with
    status "fixed" suppress nothing."""
    import re

    for k in known:
        if k.get("status") != "known" or k.get("property") != v.get("property"):
            continue
        ok = True
        for fld, rx in (k.get("match") or {}).items():
            val = v.get(fld)
            vals = val if isinstance(val, list) else [val]
            if not any(isinstance(x, str) and re.fullmatch(rx, x) for x in vals):
                ok = False
                break
        if ok and k.get("match"):
            return k
    return None


# ---------------------------------------------------------------------------
# driver
# ---------------------------------------------------------------------------
def git_describe(path: str) -> str:
    try:
        a = subprocess.run(["git", "-C", path, "rev-parse", "--short", "HEAD"], capture_output=True, text=True).stdout.strip()
        d = subprocess.run(["git", "-C", path, "status", "--porcelain"], capture_output=True, text=True).stdout.strip()
        return a + ("+dirty" if d else "")
    except Exception:
        return "?"


def driver_main(check: str, tier: str, replay: str | None = None, minimise: str | None = None) -> int:
    check = check.upper()
    os.chdir(ROOT)
    if replay:
        return driver_replay(check, replay)
    mod_info = _check_info(check)
    base = int(os.environ.get("VERIF_SEED", "1") or 1)
    tier = os.environ.get("VERIF_TIER", tier) or tier
    t0 = _now()
    b = mod_info["budget"][tier]
    seconds = float(os.environ.get("VERIF_BUDGET_S", b["seconds"]))
    nruns = b.get("runs")
    chunk = int(b.get("chunk", 10))
    procs = int(os.environ.get("VERIF_PROCS", str(min(16, os.cpu_count() or 4))))
    deadline = t0 + seconds
    tmpdir = os.path.join(ROOT, "scratch", f"{check}.{os.getpid()}")
    os.makedirs(tmpdir, exist_ok=True)
    agg = new_agg()
    trouble: list[str] = []
    next_chunk = 0
    total_chunks = None if nruns is None else (nruns + chunk - 1) // chunk

    def launch(ci: int) -> tuple[int, str, subprocess.Popen[str]]:
        out = os.path.join(tmpdir, f"chunk{ci}.json")
        start = ci * chunk
        cnt = chunk if nruns is None else min(chunk, nruns - start)
        p = subprocess.Popen([PY, "-m", "sim.harness", "--worker", check, tier, str(base), str(start), str(cnt),
                              str(deadline), out], cwd=ROOT, env=_env(hashseed_for_chunk(base, ci)),
                             stdout=subprocess.DEVNULL, stderr=subprocess.PIPE, text=True)
        return ci, out, p

    running: list[tuple[int, str, subprocess.Popen[str], float]] = []
    known_list = load_known()
    seen_vs = 0
    hard_kill_at = deadline + float(os.environ.get("VERIF_GRACE_S", "150"))
    try:
        while True:
            while len(running) < procs and (total_chunks is None or next_chunk < total_chunks) and _now() < deadline:
                ci, out, p = launch(next_chunk)
                running.append((ci, out, p, _now()))
                next_chunk += 1
            if not running:
                break
            _time_sleep(0.05)
            still = []
            for ci, out, p, ts in running:
                rc = p.poll()
                if rc is None:
                    if _now() > hard_kill_at:
                        p.kill()
                        trouble.append(f"chunk {ci} killed after wall limit")
                    else:
                        still.append((ci, out, p, ts))
                    continue
                err = p.stderr.read() if p.stderr else ""
                if rc != 0 or not os.path.exists(out):
                    trouble.append(f"chunk {ci} exited rc={rc}: {err[-1500:]}")
                    continue
                merge_agg(agg, json.load(open(out)))
                os.unlink(out)
                # listed findings can be very frequent: keep five examples of each, count the rest
                kept = []
                ex: dict[str, int] = {}
                for v in agg["violations"]:
                    k = known_match(v, known_list)
                    if k is None:
                        kept.append(v)
                        continue
                    c = agg.setdefault("known_pruned", {})
                    if ex.get(k["id"], 0) < 5:
                        ex[k["id"]] = ex.get(k["id"], 0) + 1
                        kept.append(v)
                    else:
                        c[k["id"]] = c.get(k["id"], 0) + 1
                agg["violations"] = kept
            running = still
            # enough to report: stop launching once 20 violations *not listed as known findings* are in hand
            # (listed ones are frequent for some properties and must not cut the exploration short)
            if len(agg["violations"]) >= 20 and len(agg["violations"]) != seen_vs:
                seen_vs = len(agg["violations"])
                fresh = sum(1 for v in agg["violations"] if known_match(v, known_list) is None)
                if fresh >= 20:
                    deadline = min(deadline, _now())
    finally:
        for _, _, p, _ in running:
            try:
                p.kill()
            except Exception:
                pass
    wall = _now() - t0
    for he in agg["harness_errors"][:3]:
        trouble.append(f"run {he['run']} seed {he['seed']}: {he['error'][-1200:]}")
    return finish(check, tier, base, agg, trouble, wall, mod_info, tmpdir)


def _time_sleep(s: float) -> None:
    import select

    select.select([], [], [], s)


def _check_info(check: str) -> dict[str, Any]:
    """Import the check module's static metadata in a subprocess-free way (no stabilize import needed)."""
    sys.path.insert(0, ROOT)
    meta = importlib.import_module("checks.meta")
    return meta.INFO[check]


def finish(check: str, tier: str, base: int, agg: dict[str, Any], trouble: list[str], wall: float,
           info: dict[str, Any], tmpdir: str) -> int:
    known = load_known()
    out_root = out_dir()
    os.makedirs(os.path.join(out_root, "replays", check), exist_ok=True)
    os.makedirs(os.path.join(out_root, "evidence"), exist_ok=True)
    new_vs: list[dict[str, Any]] = []
    known_hits: dict[str, dict[str, Any]] = {}
    for v in agg["violations"]:
        k = known_match(v, known)
        if k is not None:
            known_hits.setdefault(k["id"], {"k": k, "n": 0, "example": v})["n"] += 1
        else:
            new_vs.append(v)
    for kid, n in (agg.get("known_pruned") or {}).items():
        if kid in known_hits:
            known_hits[kid]["n"] += n
    # group new violations by signature; confirm the first of each by replay in a fresh interpreter
    reported: list[tuple[dict[str, Any], str]] = []
    unconfirmed: list[str] = []
    by_sig: dict[str, list[dict[str, Any]]] = {}
    for v in new_vs:
        by_sig.setdefault(v["sig"], []).append(v)
    for sig, vs in by_sig.items():
        confirmed = None
        for v in vs[:3]:
            path = os.path.join(out_root, "replays", check, f"{v['replay'].get('seed', 0)}-{_short(sig)}.json")
            doc = {"format": 1, "check": check, "tree": git_describe(repo_path()), "violation": {k: x for k, x in v.items() if k != "replay"},
                   "replay": v["replay"]}
            json.dump(doc, open(path, "w"), indent=1, default=str)
            r = replay_file(path)
            if "error" in r:
                unconfirmed.append(f"{path}: {r['error'][-500:]}")
                continue
            if any(same_violation(x, v) for x in r.get("violations", [])):
                confirmed = (v, path)
                break
            unconfirmed.append(f"{path}: replay did not reproduce {sig} (got {[x.get('sig') for x in r.get('violations', [])]})")
        if confirmed:
            v, path = confirmed
            mpath = path[:-5] + ".min.json"
            try:
                subprocess.run([PY, "-m", "sim.harness", "--minimise-worker", path, mpath,
                                os.environ.get("VERIF_MINIMISE_S", "45")], cwd=ROOT,
                               env=_env(int(v["replay"].get("hashseed", 0))), timeout=240, capture_output=True)
                if os.path.exists(mpath):
                    r2 = replay_file(mpath)
                    if any(same_violation(x, v) for x in r2.get("violations", [])):
                        path = mpath
            except Exception:
                pass
            reported.append((v, path))
    if unconfirmed:
        trouble.extend(unconfirmed[:5])
    distinct_nt = sum(1 for nt in agg["digests"].values() if nt)
    ev = {
        "property_id": check, "tier": tier if tier in ("quick", "thorough") else "quick", "seed": base,
        "level": info["level"],
        "coverage": {
            "evaluations": agg["execs"],
            "distinct_nontrivial": distinct_nt,
            "distinct_histories": len(agg["digests"]),
            "distinct_durable_states": len(agg.get("state_hashes") or []),
            "state_measure": "hash of (stage/task/workflow statuses + multiset of queued message types) at every commit boundary",
            "rule": info["rule"],
            "samples": agg["samples"][:3] or [{"note": "no sample recorded"}],
            "seeded_runs": agg["runs"],
            "runs_per_hour": round(agg["execs"] / wall * 3600) if wall > 0 else 0,
            "seeds_per_hour": round(agg["runs"] / wall * 3600) if wall > 0 else 0,
            "simulated_seconds": round(agg["sim_us"] / 1e6, 1),
            "faults_fired": dict(sorted(agg["faults"].items())),
            "probes": dict(sorted(agg["probes"].items())),
            "probes_at_zero": sorted(p for p in info.get("expected_probes", []) if not agg["probes"].get(p)),
            "stats": dict(sorted(agg["stats"].items())),
            "inconclusive_runs": agg["inconclusive"],
            "components_real": info.get("real", REAL_COMPONENTS),
            "components_stubbed": info.get("stubbed", STUB_COMPONENTS),
            "known_findings_hit": {k: x["n"] for k, x in known_hits.items()},
            "harness_trouble": trouble[:5],
            "tree": git_describe(repo_path()),
            "exhaustive": False,
        },
        "assumptions": info.get("assumptions", []),
        "wall_s": round(wall, 2),
        "violations": len(reported),
    }
    json.dump(ev, open(os.path.join(out_root, "evidence", f"{check}.json"), "w"), indent=1, default=str)
    try:
        import shutil

        shutil.rmtree(tmpdir, ignore_errors=True)
    except Exception:
        pass
    for kid, x in known_hits.items():
        print(f"KNOWN-FINDING: property={check} {x['k']['id']}: {x['k']['what']} (seen {x['n']}x this run)")
    if reported:
        for v, path in reported:
            print(f"VIOLATION property={v['property']} replay={path}")
            print(f"  {v['cls']}: {v['msg'][:400]}")
        return 1
    if trouble:
        print(f"HARNESS-TROUBLE check={check}: " + " | ".join(t[:300] for t in trouble[:3]), file=sys.stderr)
        return 2
    if agg["execs"] == 0:
        print(f"HARNESS-TROUBLE check={check}: nothing executed", file=sys.stderr)
        return 2
    print(f"OK property={check} tier={tier} executions={agg['execs']} distinct_nontrivial={distinct_nt} "
          f"wall={wall:.1f}s faults={sum(agg['faults'].values())}")
    return 0


REAL_COMPONENTS = [
    "QueueProcessor.process_one/_handle_message/run_recovery/_check_dlq", "SqliteQueue + DLQ mixin",
    "SqliteWorkflowStore + AtomicTransaction", "ConnectionManager", "all message handlers", "WorkflowRecovery",
    "Orchestrator", "BloomDeduplicator", "readiness / reducers / jump traversal", "resilient_circuit retry policies",
    "SQLite (real file, real locking, real journal)",
]
STUB_COMPONENTS = [
    "processor poll/recovery/heartbeat threads (the engine is the loop)", "bulkman thread pools (inline executor)",
    "circuit breaker (pass-through)", "user tasks (harness task set)", "wall clock / uuid4 / ULID entropy (seeded)",
]


def _short(s: str) -> str:
    return hashlib.sha1(s.encode()).hexdigest()[:8]


def driver_replay(check: str, path: str) -> int:
    doc = json.load(open(path))
    target = doc.get("violation") or {}
    r = replay_file(path)
    if "error" in r:
        print("HARNESS-TROUBLE replay: " + r["error"][-800:], file=sys.stderr)
        return 2
    vs = r.get("violations", [])
    hit = [x for x in vs if not target or same_violation(x, target)]
    if hit:
        print(f"VIOLATION property={hit[0]['property']} replay={path}")
        print(f"  {hit[0]['cls']}: {hit[0]['msg'][:600]}")
        return 1
    if vs:
        print(f"replay produced a different violation: {[x.get('sig') for x in vs]}", file=sys.stderr)
        return 2
    print("replay did not reproduce the violation (held)")
    return 0


def main() -> int:
    a = sys.argv[1:]
    if a and a[0] == "--worker":
        return worker_main(a[1:])
    if a and a[0] == "--replay-worker":
        return replay_worker_main(a[1:])
    if a and a[0] == "--minimise-worker":
        return minimise_worker_main(a[1:])
    import argparse

    ap = argparse.ArgumentParser()
    ap.add_argument("check")
    ap.add_argument("--tier", default="quick")
    ap.add_argument("--replay")
    ns = ap.parse_args(a)
    return driver_main(ns.check, ns.tier, ns.replay)


if __name__ == "__main__":
    sys.exit(main())
