"""Engine W -- several workers interleaved at SQL statement granularity.

Workers are real threads (each gets its own SQLite connection from the real ConnectionManager, over real
file locking with busy_timeout 0), but only one runs at a time: every ``execute`` / ``commit`` /
``rollback`` on a simulated connection, every simulated ``sleep`` and every task entry/exit is a yield
point at which the thread parks and the seeded scheduler decides who continues.  A real "database is
locked" parks the worker as *blocked* until another connection commits or rolls back (what SQLite's busy
handler does, minus the wall-clock wait); when every live worker is blocked the error is delivered
(busy-timeout expiry).  One seed is one exactly repeatable interleaving.
"""
from __future__ import annotations

import sqlite3
import threading
from typing import Any, Callable

from . import seams
from .seams import SimCrash, SimStall
from .world import World

REAL_WAIT_S = 120.0


class Worker:
    def __init__(self, wid: int, body: Callable[["Worker"], None], name: str = "") -> None:
        self.wid = wid
        self.name = name or f"w{wid}"
        self.body = body
        self.go = threading.Event()
        self.state = "new"          # new | ready | blocked | sleeping | idle | done
        self.wake_us = 0
        self.seen_commits = -1
        self.error: BaseException | None = None
        self.thread: threading.Thread | None = None
        self.steps = 0
        self.deliver_error = False
        self.crashed = False


class Scheduler:
    def __init__(self, world: World, strategy: str = "random", pct_depth: int = 2, step_cap: int = 200000) -> None:
        self.w = world
        self.ch = world.choices
        self.strategy = strategy
        self.pct_depth = pct_depth
        self.step_cap = step_cap
        self.workers: list[Worker] = []
        self.parked = threading.Event()
        self.current: Worker | None = None
        self.steps = 0
        self.stopping = False
        self.preemptions = 0
        self.lock_waits = 0
        self.deadlocks_resolved = 0
        self.prio: dict[int, int] = {}
        self.change_points: set[int] = set()
        self.overlap_probe: Callable[[], None] | None = None
        # strategy "stall": random walk, plus one or two long pre-emptions placed right after seeded *commits* - the
        # worker that made that commit is held back for a seeded number of steps while the others run (the windows
        # that matter lie between two commits of one handler: claim -> plan, result -> next message, ...)
        self.stall_at: dict[int, int] = {}      # commit ordinal (since start) -> hold length in steps
        self.hold: tuple[Worker, int] | None = None
        self._commit_base = 0
        self._commit_seen = 0
        self.stalls = 0
        self.stall_claims: dict[int, int] = {}
        self.stall_focus: list[int] = []
        self._claims_seen = 0
        self._pending_hold: int | None = None
        world.sched = self
        world.busy_timeout_s = 0.0

    # ------------------------------------------------------------------
    # called from worker threads (through the world's seams)
    # ------------------------------------------------------------------
    def in_worker(self) -> bool:
        return threading.get_ident() in self.w.thread_worker and self._me() is not None

    def _me(self) -> Worker | None:
        wid = self.w.thread_worker.get(threading.get_ident())
        for x in self.workers:
            if x.wid == wid and x.thread is not None and x.thread.ident == threading.get_ident():
                return x
        return None

    def _park(self, me: Worker, state: str) -> None:
        me.state = state
        me.go.clear()
        self.parked.set()
        if not me.go.wait(REAL_WAIT_S):
            raise SimStall(f"worker {me.name} was never resumed")
        if self.stopping:
            raise SimStall("scheduler stopping")
        if self.w.crashing or me.crashed:
            raise SimCrash("incarnation crashed")

    def yield_point(self, kind: str) -> None:
        me = self._me()
        if me is None:
            return
        me.steps += 1
        self._park(me, "ready")

    def sleep(self, d: float) -> None:
        me = self._me()
        if me is None:
            self.w.clock.advance(d)
            return
        me.wake_us = self.w.clock.us + int(d * 1e6)
        self._park(me, "sleeping")

    def idle_wait(self) -> None:
        """poll_one found nothing: wait for a durable change or for simulated time to pass."""
        me = self._me()
        if me is None:
            return
        me.seen_commits = self.w.commit_count
        me.wake_us = 0
        self._park(me, "idle")

    def locked_retry(self, fn: Callable[[], Any], conn: Any) -> Any:
        me = self._me()
        while True:
            try:
                return fn()
            except sqlite3.OperationalError as e:
                msg = str(e).lower()
                if "locked" not in msg and "busy" not in msg:
                    raise
                if me is None:
                    raise
                if me.deliver_error:
                    me.deliver_error = False
                    self.w.fault("busy_timeout_delivered")
                    raise
                self.lock_waits += 1
                self.w.probe("lock_wait")
                me.seen_commits = self.w.commit_count
                self._park(me, "blocked")

    def notify_progress(self) -> None:
        pass  # blocked/idle workers are woken by comparing commit counters in the scheduler

    # ------------------------------------------------------------------
    # scheduler side (main thread)
    # ------------------------------------------------------------------
    def add(self, body: Callable[[Worker], None], name: str = "") -> Worker:
        wk = Worker(len(self.workers) + 1, body, name)
        self.workers.append(wk)
        return wk

    def _thread_main(self, wk: Worker) -> None:
        self.w.thread_worker[threading.get_ident()] = wk.wid
        try:
            wk.go.wait(REAL_WAIT_S)
            if self.stopping:
                return
            wk.body(wk)
        except SimCrash:
            wk.crashed = True
        except SimStall:
            pass
        except BaseException as e:  # harness or engine error escaping a worker body
            wk.error = e
        finally:
            try:
                from stabilize.persistence.connection import ConnectionManager

                # thread-local connections die with the thread
                cm = ConnectionManager()
                loc = getattr(cm, "_sqlite_local", None)
                conns = getattr(loc, "connections", None)
                if conns:
                    for c in list(conns.values()):
                        try:
                            if c is not None and not c.sim_dead:
                                sqlite3.Connection.close(c)
                                c.sim_dead = True
                        except Exception:
                            pass
                    conns.clear()
            except Exception:
                pass
            wk.state = "done"
            self.parked.set()

    def start(self) -> None:
        n = len(self.workers)
        order = list(range(n))
        for i in range(n - 1, 0, -1):
            j = self.ch.pick("pct.prio", i + 1)
            order[i], order[j] = order[j], order[i]
        self.prio = {self.workers[i].wid: 10 + order[i] for i in range(n)}
        if self.strategy == "pct":
            horizon = 1500
            self.change_points = {self.ch.pick("pct.cp", horizon) for _ in range(self.pct_depth)}
        if self.strategy == "stall":
            if self.ch.pick("stall.kind", 2) == 0:
                for _ in range(1 + self.ch.pick("stall.n", 2)):
                    self.stall_at[1 + self.ch.pick("stall.commit", 90)] = self.ch.choice("stall.len", [15, 40, 100, 250, 600])
            else:
                # ... or right after the k-th *claim* of the run (a commit that makes a stage RUNNING): the worker sits
                # between its claim commit and its plan commit while the others go on
                self.stall_claims = {1 + self.ch.pick("stall.claim", 7): self.ch.choice("stall.len", [15, 40, 100, 250, 600])
                                     for _ in range(1 + self.ch.pick("stall.n", 2))}
                if self.stall_focus and self.ch.flip("stall.focus", 0.7):
                    # the check knows which claim it cares about (e.g. the join stage's)
                    self.stall_claims = {self.stall_focus[self.ch.pick("stall.focus.i", len(self.stall_focus))]:
                                         self.ch.choice("stall.len", [40, 100, 250, 600])}
                prev_hook = self.w.on_commit_hook

                def hook(rec: Any) -> None:
                    if prev_hook is not None:
                        prev_hook(rec)
                    if not self.stall_claims or self._me() is None:
                        return
                    n = self.w.hquery("SELECT count(*) AS c FROM sim_audit WHERE seq > ? AND seq <= ? AND kind = 'stage' "
                                      "AND old = 'NOT_STARTED' AND new = 'RUNNING'", (rec.lo, rec.hi))[0]["c"]
                    for _i in range(int(n)):
                        self._claims_seen += 1
                        ln = self.stall_claims.pop(self._claims_seen, None)
                        if ln is not None:
                            self._pending_hold = ln

                self.w.on_commit_hook = hook
        self._commit_base = self._commit_seen = self.w.commit_count
        for wk in self.workers:
            t = threading.Thread(target=self._thread_main, args=(wk,), daemon=True, name=f"sim-{wk.name}")
            wk.thread = t
            wk.state = "ready"
            t.start()

    def _runnable(self) -> list[Worker]:
        out = []
        cc = self.w.commit_count
        now = self.w.clock.us
        for wk in self.workers:
            if wk.state == "ready":
                out.append(wk)
            elif wk.state == "blocked" and (wk.seen_commits != cc or self._someone_moved(wk)):
                out.append(wk)
            elif wk.state == "sleeping" and now >= wk.wake_us:
                out.append(wk)
            elif wk.state == "idle" and (wk.seen_commits != cc or now >= wk.wake_us > 0):
                out.append(wk)
        return out

    def _someone_moved(self, wk: Worker) -> bool:
        # a rollback by a peer also releases locks; approximated by "another worker took a step since"
        return getattr(wk, "_peer_steps", None) != self._peer_steps(wk)

    def _peer_steps(self, wk: Worker) -> int:
        return sum(x.steps for x in self.workers if x is not wk)

    def _pick(self, cands: list[Worker]) -> Worker:
        if len(cands) == 1:
            self.ch.pick("sched", 1)
            return cands[0]
        if self.strategy == "pct":
            if self.steps in self.change_points and self.current is not None:
                self.prio[self.current.wid] = min(self.prio.values()) - 1
            best = max(cands, key=lambda x: self.prio[x.wid])
            self.ch.pick("sched", 1)
            return best
        if self.hold is not None:
            hw, until_step = self.hold
            if self.steps >= until_step or hw.state == "done":
                self.hold = None
            elif hw in cands and len(cands) > 1:
                cands = [c for c in cands if c is not hw]
                if len(cands) == 1:
                    self.ch.pick("sched", 1)
                    return cands[0]
        # random walk with a bias towards letting the current worker continue
        cur = self.current if self.current in cands else None
        order = ([cur] if cur else []) + [c for c in cands if c is not cur]
        if cur is not None and not self.ch.flip("sched.switch", 0.35):
            return cur
        i = self.ch.pick("sched", len(order))
        return order[i]

    def run(self, until: Callable[[], bool] | None = None) -> str:
        """Run until every worker is done/idle with nothing left to wake them, or ``until()`` holds."""
        w = self.w
        while True:
            if self.steps >= self.step_cap:
                return "step-cap"
            if until is not None and until():
                return "until"
            if w.crashing:
                return "crash"
            cands = self._runnable()
            if not cands:
                live = [x for x in self.workers if x.state != "done"]
                if not live:
                    return "done"
                blocked = [x for x in live if x.state == "blocked"]
                timed = [x for x in live if x.state == "sleeping" or (x.state == "idle" and x.wake_us > w.clock.us)]
                if blocked and not timed and all(x.state in ("blocked", "idle") for x in live) \
                        and not any(x.state == "idle" and self._idle_can_progress(x) for x in live):
                    # every live worker waits for a lock that nobody will release: busy timeout expires for one
                    victim = blocked[self.ch.pick("deadlock.victim", len(blocked))]
                    victim.deliver_error = True
                    self.deadlocks_resolved += 1
                    cands = [victim]
                elif timed:
                    nxt = min(x.wake_us for x in timed)
                    w.clock.set_at_least(nxt)
                    continue
                else:
                    # all idle: is there queued work that becomes deliverable later?
                    nxt = self._next_queue_wakeup()
                    if nxt is None:
                        return "quiescent"
                    w.clock.set_at_least(nxt)
                    for x in live:
                        if x.state == "idle":
                            x.wake_us = nxt
                    continue
            nxt_w = self._pick(cands)
            if self.current is not None and nxt_w is not self.current and self.current.state == "ready":
                self.preemptions += 1
            self.current = nxt_w
            self.steps += 1
            for x in self.workers:
                x._peer_steps = self._peer_steps(x)  # type: ignore[attr-defined]
            if w.knobs.peer_emulation:
                self._forget_process_local_guards()
            self.parked.clear()
            nxt_w.state = "running"
            nxt_w.go.set()
            if not self.parked.wait(REAL_WAIT_S):
                self.stopping = True
                raise RuntimeError(f"worker {nxt_w.name} did not yield within {REAL_WAIT_S}s (real time)")
            if self._pending_hold is not None:
                if nxt_w.state != "done":
                    self.hold = (nxt_w, self.steps + self._pending_hold)
                    self.stalls += 1
                    w.probe("stall_after_claim")
                self._pending_hold = None
            if self.stall_at and w.commit_count != self._commit_seen:
                for n in range(self._commit_seen + 1, w.commit_count + 1):
                    ln = self.stall_at.pop(n - self._commit_base, None)
                    if ln is not None and nxt_w.state != "done":
                        self.hold = (nxt_w, self.steps + ln)
                        self.stalls += 1
                        w.probe("stall_after_commit")
                self._commit_seen = w.commit_count
            if self.overlap_probe is not None:
                self.overlap_probe()

    def _idle_can_progress(self, wk: Worker) -> bool:
        return False

    def _next_queue_wakeup(self) -> int | None:
        from .engine_d import _iso_us

        rows = self.w.hquery("SELECT deliver_at, locked_until, attempts, max_attempts FROM queue_messages")
        best: int | None = None
        mx = self.w.queue.max_attempts if self.w.queue is not None else 10
        for r in rows:
            if r["attempts"] >= mx:
                continue
            t = _iso_us(r["deliver_at"])
            if r["locked_until"]:
                lu = (_iso_us(r["locked_until"]) // 1_000_000 + 1) * 1_000_000
                t = max(t, lu)
            t = max(t, self.w.clock.us + 1)
            best = t if best is None else min(best, t)
        return best

    def _forget_process_local_guards(self) -> None:
        from stabilize.handlers.run_task.handler import RunTaskHandler

        RunTaskHandler._executing_tasks.clear()

    def stop(self) -> None:
        """Tear down: resume every parked worker so that it unwinds."""
        self.stopping = True
        for _ in range(3):
            for wk in self.workers:
                if wk.state != "done":
                    wk.go.set()
            for wk in self.workers:
                if wk.thread is not None:
                    wk.thread.join(timeout=5.0)
        self.w.sched = None

    def crash_all(self) -> None:
        """After a SimCrash in one worker: every other thread of the incarnation dies too."""
        for wk in self.workers:
            wk.crashed = True
        for _ in range(3):
            for wk in self.workers:
                if wk.state != "done":
                    wk.go.set()
            for wk in self.workers:
                if wk.thread is not None:
                    wk.thread.join(timeout=5.0)
        self.w.sched = None

    def errors(self) -> list[str]:
        import traceback

        return ["".join(traceback.format_exception(x.error))[-1500:] for x in self.workers if x.error is not None]


def processor_worker(world: World, max_messages: int | None = None) -> Callable[[Worker], None]:
    """Worker body: loop over the real ``process_one`` like one thread of a QueueProcessor."""

    def body(wk: Worker) -> None:
        n = 0
        sched = world.sched
        while not sched.stopping:
            try:
                ok = world.processor.process_one()
            except SimCrash:
                raise
            except SimStall:
                raise
            except Exception as e:  # handler failed: process_one rescheduled the row and re-raised
                world.probe("handler_error")
                world.notes.append(f"{wk.name}: {type(e).__name__}: {e}"[:300])
                ok = True
            if ok:
                n += 1
                if max_messages is not None and n >= max_messages:
                    return
            else:
                sched.idle_wait()

    return body
