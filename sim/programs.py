"""Workload family: program specs (plain JSON-able dicts), harness tasks, stage
builders for synthetic stages, and the seeded program generator.

A program spec:

    {"name": str,
     "wf_ctx": {...},                       # workflow-level context (e.g. _max_jumps)
     "builder_tasks": bool,                 # tasks built at plan time by the StageDefinitionBuilder
     "stages": [
        {"ref": "A", "deps": ["..."], "join": "AND|OR|DISCRIMINATOR|N_OF_M", "thr": int,
         "ctx": {...},                      # own context (continuePipelineOnFailure, stageEnabled, own keys)
         "split": {"B": "expr", ...} | None,
         "mutex": str|None, "choice": str|None, "reducers": {key: name}|None,
         "synth": {"before": n, "after": n, "fail": n},
         "tasks": [ {"b": kind, ...}, ... ]}]}

Task behaviours are functions of the *durable* stage context only (plus, for
the two explicitly "external" kinds, the number of earlier calls recorded in
the world's ledger, which models an external service), so a re-execution after
a crash behaves like the original.  Every produced value is unique and
self-describing: "<ref>.<task idx>#<iteration>#<key>".
"""
from __future__ import annotations

from typing import Any

from . import seams
from .choices import Choices

SCALAR_KEYS = ["k0", "k1", "k2", "k3"]
LIST_KEYS = ["L0", "L1"]


# ---------------------------------------------------------------------------
# harness tasks
# ---------------------------------------------------------------------------
def _make_task_class() -> Any:
    from stabilize.errors import TransientError
    from stabilize.tasks.interface import Task
    from stabilize.tasks.result import TaskResult

    class SimTask(Task):
        def __init__(self, name: str, ref: str, idx: Any, spec: dict[str, Any]) -> None:
            self.name = name
            self.ref = ref
            self.idx = idx
            self.spec = spec
            self.itkey = "_it_" + name
            self.pkey = "_p_" + name

        def _outputs(self, it: int) -> dict[str, Any]:
            out: dict[str, Any] = {}
            if self.spec.get("once") and it > 0:
                return out     # produces its outputs in the first iteration only
            for k, kind in (self.spec.get("out") or {}).items():
                v = f"{self.ref}.{self.idx}#{it}#{k}"
                out[k] = [v] if kind == "l" else v
            nums = self.spec.get("num")
            if nums:
                for k, v in nums.items():
                    out[k] = v
            return out

        def execute(self, stage: Any) -> Any:
            w = seams.CURRENT
            spec = self.spec
            ctx = stage.context
            kind = spec["b"]
            if w.task_yield is not None:
                w.task_yield("enter:" + self.name)
            it = int(ctx.get(self.itkey, 0) or 0)
            done = {self.itkey: it + 1}
            result: Any = None
            exc: BaseException | None = None
            descr = kind
            if kind == "ok":
                result = TaskResult.success(outputs=self._outputs(it), context=dict(done))
            elif kind == "fail_terminal":
                result = TaskResult.terminal("boom")
            elif kind == "fail_continue":
                result = TaskResult.failed_continue("meh", outputs=self._outputs(it), context=dict(done))
            elif kind == "exc":
                exc = RuntimeError("permanent failure in " + self.name)
            elif kind == "poller":
                c = int(ctx.get(self.pkey, 0) or 0)
                if c < int(spec.get("n", 1)):
                    result = TaskResult.running(context={self.pkey: c + 1})
                    descr = f"poller:running:{c}"
                else:
                    d = dict(done)
                    d[self.pkey] = 0
                    result = TaskResult.success(outputs=self._outputs(it), context=d)
                    descr = f"poller:done:{c}"
            elif kind == "transient":
                k = spec.get("k", 1)
                if spec.get("progress", True):
                    c = int(ctx.get(self.pkey, 0) or 0)
                else:  # external service: fails its first k calls (per iteration)
                    c = sum(1 for e in w.ledger if e["key"] == self.name and e.get("it") == it)
                if k == "inf" or c < int(k):
                    upd = {self.pkey: c + 1} if spec.get("progress", True) else None
                    exc = TransientError("sim transient", context_update=upd)
                    descr = f"transient:fail:{c}"
                else:
                    d = dict(done)
                    d[self.pkey] = 0
                    result = TaskResult.success(outputs=self._outputs(it), context=d)
                    descr = f"transient:ok:{c}"
            elif kind == "jumper":
                jkey = "_j_" + self.name
                c = int(ctx.get(jkey, 0) or 0)
                vkey = "_v_" + self.name
                visits = int(ctx.get(vkey, 0) or 0)
                alt = int(spec.get("alt", 0) or 0)      # "alt": k -> jumps only on every k-th visit, passes otherwise
                wants = c < int(spec.get("n", 1)) and (not alt or visits % alt == 0)
                if wants:
                    result = TaskResult.jump_to(spec["target"], context={jkey: c + 1, self.itkey: it + 1, vkey: visits + 1})
                    descr = f"jumper:jump:{c}"
                else:
                    d2 = dict(done)
                    if alt:
                        d2[vkey] = visits + 1
                    result = TaskResult.success(outputs=self._outputs(it), context=d2)
                    descr = f"jumper:pass:{c}"
            elif kind == "suspender" and int(spec.get("n", 1) or 1) > 1:
                # waits for n signals: every execution after the first one was caused by a resume
                need = int(spec["n"])
                xkey, gkey = "_sx_" + self.name, "_sg_" + self.name
                got = int(ctx.get(gkey, 0) or 0) + (1 if ctx.get(xkey) else 0)
                if got >= need:
                    out = self._outputs(it)
                    out["sig_" + self.ref] = {"name": ctx.get("_signal_name"), "data": ctx.get("_signal_data")}
                    result = TaskResult.success(outputs=out, context=dict(done))
                    descr = f"suspender:resumed:{got}"
                else:
                    result = TaskResult.suspend(context={xkey: True, gkey: got})
                    descr = "suspender:suspend" if got == 0 else f"suspender:resumed-suspend:{got}"
            elif kind == "suspender":
                sig = ctx.get("_signal_name")
                if sig:
                    out = self._outputs(it)
                    out["sig_" + self.ref] = {"name": sig, "data": ctx.get("_signal_data")}
                    result = TaskResult.success(outputs=out, context=dict(done))
                    descr = "suspender:resumed"
                else:
                    result = TaskResult.suspend()
                    descr = "suspender:suspend"
            else:
                raise ValueError("unknown behaviour " + str(kind))
            e = w.record_execution(self.name, stage, descr)
            e["it"] = it
            if w.task_yield is not None:
                w.task_yield("exit:" + self.name)
            if exc is not None:
                raise exc
            return result

    return SimTask


_SimTask: Any = None


def sim_task_class() -> Any:
    global _SimTask
    if _SimTask is None:
        _SimTask = _make_task_class()
    return _SimTask


def task_name(ref: str, idx: Any) -> str:
    return f"t_{ref}_{idx}"


# ---------------------------------------------------------------------------
# Program
# ---------------------------------------------------------------------------
class Program:
    def __init__(self, spec: dict[str, Any]) -> None:
        self.spec = spec
        self.stages: dict[str, dict[str, Any]] = {s["ref"]: s for s in spec["stages"]}
        self.order = [s["ref"] for s in spec["stages"]]

    # -- structure helpers (shared with oracles; pure functions of the spec) --
    def deps(self, ref: str) -> list[str]:
        return list(self.stages[ref].get("deps") or [])

    def ancestors(self, ref: str) -> set[str]:
        seen: set[str] = set()
        todo = list(self.deps(ref))
        while todo:
            r = todo.pop()
            if r in seen:
                continue
            seen.add(r)
            todo.extend(self.deps(r))
        return seen

    def downstream(self, ref: str) -> list[str]:
        return [r for r in self.order if ref in self.deps(r)]

    def descendants(self, ref: str) -> set[str]:
        seen: set[str] = set()
        todo = self.downstream(ref)
        while todo:
            r = todo.pop()
            if r in seen:
                continue
            seen.add(r)
            todo.extend(self.downstream(r))
        return seen

    def task_specs(self, ref: str) -> list[dict[str, Any]]:
        return list(self.stages[ref].get("tasks") or [])

    def all_task_names(self) -> list[str]:
        out = []
        for ref in self.order:
            for i, _ in enumerate(self.task_specs(ref)):
                out.append(task_name(ref, i))
        return out

    def has(self, feature: str) -> bool:
        return feature in self.features()

    def features(self) -> set[str]:
        f: set[str] = set()
        for s in self.spec["stages"]:
            if len(s.get("deps") or []) > 1:
                f.add("join:" + s.get("join", "AND"))
            if s.get("split"):
                f.add("or_split")
            if s.get("mutex"):
                f.add("mutex")
            if s.get("choice"):
                f.add("choice")
            if s.get("reducers"):
                f.add("reducers")
            sy = s.get("synth") or {}
            for k in ("before", "after", "fail"):
                if sy.get(k):
                    f.add("synth:" + k)
            if (s.get("ctx") or {}).get("continuePipelineOnFailure"):
                f.add("continue_on_failure")
            if "stageEnabled" in (s.get("ctx") or {}):
                f.add("stage_enabled")
            if len(s.get("tasks") or []) > 1:
                f.add("multi_task")
            for t in s.get("tasks") or []:
                f.add("task:" + t["b"])
        if self.spec.get("builder_tasks"):
            f.add("builder_tasks")
        return f

    # -- installation into an incarnation --
    def install(self, world: Any) -> None:
        import stabilize.stages.builder as sb
        from stabilize.dag.graph import StageGraphBuilder  # noqa: F401
        from stabilize.models.stage import StageExecution, SyntheticStageOwner
        from stabilize.models.task import TaskExecution
        from stabilize.stages.builder import StageDefinitionBuilder, get_default_factory

        T = sim_task_class()
        reg = world.registry
        for ref in self.order:
            for i, tspec in enumerate(self.task_specs(ref)):
                nm = task_name(ref, i)
                reg.register(nm, T(nm, ref, i, tspec))
            sy = self.stages[ref].get("synth") or {}
            for phase in ("before", "after", "fail"):
                for j in range(int(sy.get(phase, 0) or 0)):
                    nm = task_name(ref, f"{phase}{j}")
                    tspec = {"b": "ok", "out": {}}
                    if phase == "before" and sy.get("before_fail") and j == 0:
                        tspec = {"b": "fail_terminal"}
                    if list(sy.get("bad") or []) == [phase, j]:
                        tspec = {"b": "fail_terminal"}
                    reg.register(nm, T(nm, f"{ref}<{phase}{j}>", 0, tspec))
        program = self

        def make_builder(ref: str) -> Any:
            sspec = program.stages[ref]
            sy = sspec.get("synth") or {}

            class B(StageDefinitionBuilder):
                @property
                def type(self) -> str:
                    return "st_" + ref

                def build_tasks(self, stage: Any) -> list[Any]:
                    if not program.spec.get("builder_tasks"):
                        return []
                    return [TaskExecution.create(name=task_name(ref, i), implementing_class=task_name(ref, i))
                            for i, _ in enumerate(program.task_specs(ref))]

                def _mk(self, stage: Any, graph: Any, phase: str, owner: Any, n: int) -> None:
                    prev = None
                    for j in range(n):
                        nm = task_name(ref, f"{phase}{j}")
                        s = StageExecution.create_synthetic(
                            type="syn", name=f"{ref}:{phase}{j}", parent=stage, owner=owner, context={})
                        s.tasks = [TaskExecution.create(name=nm, implementing_class=nm,
                                                        stage_start=True, stage_end=True)]
                        if prev is not None and sy.get("chain"):
                            graph.append(s)
                        else:
                            graph.add(s)
                        prev = s

                def before_stages(self, stage: Any, graph: Any) -> None:
                    self._mk(stage, graph, "before", SyntheticStageOwner.STAGE_BEFORE, int(sy.get("before", 0) or 0))

                def after_stages(self, stage: Any, graph: Any) -> None:
                    self._mk(stage, graph, "after", SyntheticStageOwner.STAGE_AFTER, int(sy.get("after", 0) or 0))

                def on_failure_stages(self, stage: Any, graph: Any) -> None:
                    self._mk(stage, graph, "fail", SyntheticStageOwner.STAGE_AFTER, int(sy.get("fail", 0) or 0))

            return B()

        fac = get_default_factory()
        for ref in self.order:
            fac.register(make_builder(ref))

        class Syn(StageDefinitionBuilder):
            @property
            def type(self) -> str:
                return "syn"

        fac.register(Syn())
        _ = sb

    def build_workflow(self) -> Any:
        from stabilize.models.stage import JoinType, SplitType, StageExecution
        from stabilize.models.task import TaskExecution
        from stabilize.models.workflow import Workflow

        stages = []
        for ref in self.order:
            s = self.stages[ref]
            tasks = []
            if not self.spec.get("builder_tasks"):
                n = len(s.get("tasks") or [])
                for i in range(n):
                    nm = task_name(ref, i)
                    tasks.append(TaskExecution.create(name=nm, implementing_class=nm,
                                                      stage_start=(i == 0), stage_end=(i == n - 1)))
            kw: dict[str, Any] = {}
            j = s.get("join", "AND")
            if j != "AND":
                kw["join_type"] = JoinType[j]
                if j == "N_OF_M":
                    kw["join_threshold"] = int(s.get("thr", 1))
            if s.get("split"):
                kw["split_type"] = SplitType.OR
                kw["split_conditions"] = dict(s["split"])
            if s.get("mutex"):
                kw["mutex_key"] = s["mutex"]
            if s.get("choice"):
                kw["deferred_choice_group"] = s["choice"]
            if s.get("reducers"):
                kw["output_reducers"] = dict(s["reducers"])
            st = StageExecution(
                ref_id=ref, type="st_" + ref, name=ref, context=dict(s.get("ctx") or {}),
                requisite_stage_ref_ids=set(s.get("deps") or []), tasks=tasks, **kw)
            stages.append(st)
        wf = Workflow.create(application="sim", name=self.spec.get("name", "p"), stages=stages,
                             context=dict(self.spec.get("wf_ctx") or {}))
        for st in stages:
            st.execution = wf
        return wf


# ---------------------------------------------------------------------------
# generator
# ---------------------------------------------------------------------------
DEFAULT_PROFILE: dict[str, Any] = {
    "max_stages": 6,
    "shapes": ["chain", "fan", "diamond", "diamond2", "side", "random"],
    "joins": ["AND", "AND", "AND", "DISCRIMINATOR", "N_OF_M", "OR"],
    "behaviours": {"ok": 10, "fail_terminal": 1, "fail_continue": 1, "poller": 2, "transient": 2, "exc": 0},
    "multi_task_p": 0.3,
    "synth_p": 0.15,
    "cof_p": 0.15,            # continuePipelineOnFailure on a stage with a failing task
    "loop_p": 0.15,           # add a jumper
    "disabled_p": 0.05,       # stageEnabled: False
    "or_split_p": 0.1,
    "builder_tasks_p": 0.15,
    "outputs_p": 0.7,
    "mutex_p": 0.0,
    "choice_p": 0.0,
    "reducers_p": 0.0,
    "synth_fail_p": 0.0,      # a synthetic child stage whose task fails terminally
    "fwd_jump_p": 0.0,        # share of jumps that go forward (to a descendant) instead of back
    "once_p": 0.0,            # an ok-task that produces its outputs in the first loop iteration only
    "max_jumps": [None, None, 1, 3],
    "confluent_only": False,
}


def _refs(n: int) -> list[str]:
    return [chr(ord("A") + i) for i in range(n)]


def gen_shape(ch: Choices, profile: dict[str, Any]) -> list[tuple[str, list[str]]]:
    shape = ch.choice("shape", profile["shapes"])
    mx = int(profile["max_stages"])
    if shape == "chain":
        n = 1 + ch.pick("n", min(4, mx))
        r = _refs(n)
        return [(r[i], [r[i - 1]] if i else []) for i in range(n)]
    if shape == "fan":       # A -> (B..), join
        k = 2 + ch.pick("k", 2)
        r = _refs(k + 2)
        return [(r[0], [])] + [(r[i], [r[0]]) for i in range(1, k + 1)] + [(r[k + 1], r[1:k + 1])]
    if shape == "diamond":   # A -> B,C -> D -> E
        r = _refs(5)
        return [(r[0], []), (r[1], [r[0]]), (r[2], [r[0]]), (r[3], [r[1], r[2]]), (r[4], [r[3]])]
    if shape == "diamond2":  # two diamonds in series
        r = _refs(7)
        return [(r[0], []), (r[1], [r[0]]), (r[2], [r[0]]), (r[3], [r[1], r[2]]),
                (r[4], [r[3]]), (r[5], [r[3]]), (r[6], [r[4], r[5]])][:max(4, mx)]
    if shape == "side":      # fan-in with a side branch: A->B->D, A->C->D, C->E
        r = _refs(5)
        return [(r[0], []), (r[1], [r[0]]), (r[2], [r[0]]), (r[3], [r[1], r[2]]), (r[4], [r[2]])]
    # random DAG
    n = 2 + ch.pick("n", max(1, mx - 1))
    r = _refs(n)
    out: list[tuple[str, list[str]]] = []
    for i in range(n):
        deps: list[str] = []
        if i > 0:
            nd = ch.pick("nd", min(3, i) + 1)
            cand = list(r[:i])
            for _ in range(nd):
                d = cand.pop(ch.pick("d", len(cand)))
                deps.append(d)
        out.append((r[i], sorted(deps)))
    return out


def gen_task(ch: Choices, profile: dict[str, Any], with_outputs: bool = True) -> dict[str, Any]:
    beh = profile["behaviours"]
    kinds = [k for k, w in beh.items() if w > 0]
    kind = kinds[ch.weighted("beh", [beh[k] for k in kinds])]
    t: dict[str, Any] = {"b": kind}
    if kind in ("ok", "fail_continue", "poller", "transient"):
        out: dict[str, str] = {}
        if with_outputs and ch.flip("has_out", profile["outputs_p"]):
            for _ in range(1 + ch.pick("nout", 2)):
                if ch.flip("listkey", 0.3):
                    out[ch.choice("lk", LIST_KEYS)] = "l"
                else:
                    out[ch.choice("sk", SCALAR_KEYS)] = "s"
        t["out"] = out
    if kind == "ok" and profile.get("once_p", 0) and ch.flip("once", profile["once_p"]):
        t["once"] = True
    if kind == "poller":
        t["n"] = 1 + ch.pick("polls", 3)
    if kind == "transient":
        t["k"] = 1 + ch.pick("fails", 3)
        t["progress"] = not ch.flip("noprog", 0.3)
    return t


def gen_program(ch: Choices, profile: dict[str, Any] | None = None) -> Program:
    p = dict(DEFAULT_PROFILE)
    if profile:
        p.update(profile)
    shape = gen_shape(ch, p)
    stages: list[dict[str, Any]] = []
    refs = [r for r, _ in shape]
    for ref, deps in shape:
        s: dict[str, Any] = {"ref": ref, "deps": deps, "ctx": {}}
        if len(deps) > 1:
            j = ch.choice("join", p["joins"])
            s["join"] = j
            if j == "N_OF_M":
                s["thr"] = 1 + ch.pick("thr", len(deps))
        nt = 1
        if ch.flip("multi", p["multi_task_p"]):
            nt = 2 + ch.pick("nt", 2)
        s["tasks"] = [gen_task(ch, p) for _ in range(nt)]
        fails = any(t["b"] in ("fail_terminal", "exc") for t in s["tasks"])
        if fails and ch.flip("cof", p["cof_p"] * 3):
            s["ctx"]["continuePipelineOnFailure"] = True
        if ch.flip("synth", p["synth_p"]):
            sy = {"before": ch.pick("nb", 3), "after": ch.pick("na", 3), "fail": ch.pick("nf", 2)}
            if ch.flip("chain", 0.3):
                sy["chain"] = 1
            if p.get("synth_fail_p", 0.0) > 0 and ch.flip("sfail", p["synth_fail_p"]):
                # one synthetic child whose task fails terminally (a failing before- / after- / on-failure stage next
                # to healthy siblings)
                phases = [ph for ph in ("before", "after", "fail") if sy.get(ph)]
                if phases:
                    ph = phases[ch.pick("sfail.phase", len(phases))]
                    sy["bad"] = [ph, ch.pick("sfail.j", int(sy[ph]))]
            s["synth"] = sy
        if ch.flip("disabled", p["disabled_p"]):
            s["ctx"]["stageEnabled"] = False
        if ch.flip("ownkey", 0.2):
            s["ctx"][ch.choice("ok", SCALAR_KEYS)] = f"own:{ref}"
        stages.append(s)
    spec: dict[str, Any] = {"name": "gen", "stages": stages, "wf_ctx": {}}
    by_ref = {s["ref"]: s for s in stages}
    # OR split: conditions on a stage with >= 2 downstream
    if ch.flip("orsplit", p["or_split_p"]):
        for s in stages:
            down = [x["ref"] for x in stages if s["ref"] in x["deps"]]
            if len(down) >= 2:
                conds = {}
                for d in down:
                    conds[d] = "True" if ch.flip("cond", 0.5) else "False"
                s["split"] = conds
                break
    # jump loop
    if ch.flip("loop", p["loop_p"]) and stages:
        src = stages[ch.pick("jsrc", len(stages))]
        prog = Program(spec)
        cand = sorted(prog.ancestors(src["ref"])) + [src["ref"]]
        fwd = sorted(prog.descendants(src["ref"]))
        if p.get("fwd_jump_p", 0.0) > 0 and fwd and ch.flip("jfwd", p["fwd_jump_p"]):
            cand = fwd          # forward jump: the source is force-completed, bypassed stages are skipped
        target = cand[ch.pick("jtgt", len(cand))]
        n = ch.pick("jn", 3)
        ti = ch.pick("jtask", len(src["tasks"]))
        src["tasks"][ti] = {"b": "jumper", "target": target, "n": n, "out": src["tasks"][ti].get("out", {})}
        mj = ch.choice("maxj", p["max_jumps"])
        if mj is not None:
            spec["wf_ctx"]["_max_jumps"] = mj
    if ch.flip("mutex", p["mutex_p"]):
        sibs = [s for s in stages if len(s["deps"]) <= 1]
        if len(sibs) >= 2:
            for s in sibs[: 2 + ch.pick("nm", 2)]:
                s["mutex"] = "m"
    if ch.flip("choice", p["choice_p"]):
        groups: dict[tuple[str, ...], list[dict[str, Any]]] = {}
        for s in stages:
            groups.setdefault(tuple(s["deps"]), []).append(s)
        for g in groups.values():
            if len(g) >= 2:
                for s in g:
                    s["choice"] = "g"
                break
    if ch.flip("bt", p["builder_tasks_p"]):
        spec["builder_tasks"] = True
    _ = (refs, by_ref)
    return Program(spec)


# ---------------------------------------------------------------------------
# hand-written programs used by smoke tests and as fixed members of sweeps
# ---------------------------------------------------------------------------
def diamond_spec() -> dict[str, Any]:
    ok = lambda **kw: {"b": "ok", "out": kw}  # noqa: E731
    return {"name": "diamond", "wf_ctx": {}, "stages": [
        {"ref": "A", "deps": [], "tasks": [ok(k0="s", L0="l")]},
        {"ref": "B", "deps": ["A"], "tasks": [ok(k1="s", L0="l")]},
        {"ref": "C", "deps": ["A"], "tasks": [ok(k2="s"), ok(k3="s")]},
        {"ref": "D", "deps": ["B", "C"], "tasks": [ok(k0="s")]},
        {"ref": "E", "deps": ["D"], "tasks": [ok()]},
    ]}
