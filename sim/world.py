"""The simulated world: one SQLite file, one simulated clock, one choice trace,
a sequence of worker-process incarnations, and everything the oracles observe.

Real code under test: QueueProcessor, SqliteQueue, SqliteWorkflowStore, all
handlers, WorkflowRecovery, Orchestrator, event store/recorder/bus, SQLite.
Stubbed: the processor's own threads (the engines are the loop), bulkman's
thread pools and the circuit breaker (see DESIGN.md section 4).
"""
from __future__ import annotations

import copy
import json
import os
import shutil
import sqlite3
import tempfile
import threading
from dataclasses import dataclass, field
from datetime import timedelta
from typing import Any, Callable

from . import seams
from .choices import Choices
from .seams import SimClock, SimCrash


@dataclass
class Knobs:
    lock_duration_s: float = 60.0
    max_attempts: int = 10
    bloom_capacity: int = 150
    journal_mode: str = "DELETE"
    dedup_trust_negative: bool = False
    handler_retry_delay_s: float = 15.0
    concurrency_max_retries: int = 3
    max_stage_wait_retries: int = 240
    event_sourcing: bool = False
    peer_emulation: bool = False
    tick_stmt_us: int = 137
    tick_commit_us: int = 1009

    def to_dict(self) -> dict[str, Any]:
        return dict(self.__dict__)


@dataclass
class CommitRec:
    n: int          # global 1-based index over all engine commits of the world
    inc: int
    worker: int
    lo: int         # first audit seq owned by this commit (exclusive lower bound = previous hi)
    hi: int         # last audit seq durable after this commit
    ctx: str
    t_us: int


class InjectedIOError(sqlite3.OperationalError):
    pass


AUDIT_DDL = """
CREATE TABLE IF NOT EXISTS sim_audit(
  seq INTEGER PRIMARY KEY AUTOINCREMENT,
  kind TEXT, tbl TEXT, row_id TEXT, old TEXT, new TEXT, extra TEXT, ctx TEXT);

CREATE TRIGGER IF NOT EXISTS sim_wf_upd AFTER UPDATE ON pipeline_executions
WHEN old.status IS NOT new.status OR old.is_canceled IS NOT new.is_canceled
BEGIN
  INSERT INTO sim_audit(kind,tbl,row_id,old,new,extra,ctx)
  VALUES('wf', 'pipeline_executions', new.id, old.status, new.status,
         json_object('c_old', old.is_canceled, 'c_new', new.is_canceled), sim_ctx());
END;
CREATE TRIGGER IF NOT EXISTS sim_wf_ins AFTER INSERT ON pipeline_executions
BEGIN
  INSERT INTO sim_audit(kind,tbl,row_id,old,new,extra,ctx)
  VALUES('wf_ins', 'pipeline_executions', new.id, NULL, new.status, NULL, sim_ctx());
END;

CREATE TRIGGER IF NOT EXISTS sim_stage_upd AFTER UPDATE ON stage_executions
BEGIN
  INSERT INTO sim_audit(kind,tbl,row_id,old,new,extra,ctx)
  VALUES('stage', 'stage_executions', new.id, old.status, new.status,
         json_object('ref', new.ref_id, 'v_old', old.version, 'v_new', new.version,
                     'jb_old', json_extract(old.context,'$._jump_bypass'),
                     'jb_new', json_extract(new.context,'$._jump_bypass'),
                     'jf_old', json_extract(old.context,'$._join_fired'),
                     'jf_new', json_extract(new.context,'$._join_fired'),
                     'jc_new', json_extract(new.context,'$._jump_count'),
                     'act_old', json_extract(old.context,'$._activated_branches'),
                     'start_new', new.start_time,
                     'parent', new.parent_stage_id, 'exec', new.execution_id),
         sim_ctx());
END;
CREATE TRIGGER IF NOT EXISTS sim_stage_ins AFTER INSERT ON stage_executions
BEGIN
  INSERT INTO sim_audit(kind,tbl,row_id,old,new,extra,ctx)
  VALUES('stage_ins', 'stage_executions', new.id, NULL, new.status,
         json_object('ref', new.ref_id, 'parent', new.parent_stage_id,
                     'owner', new.synthetic_stage_owner, 'name', new.name,
                     'exec', new.execution_id, 'mutex', new.mutex_key,
                     'choice', new.deferred_choice_group), sim_ctx());
END;
CREATE TRIGGER IF NOT EXISTS sim_stage_del AFTER DELETE ON stage_executions
BEGIN
  INSERT INTO sim_audit(kind,tbl,row_id,old,new,extra,ctx)
  VALUES('stage_del', 'stage_executions', old.id, old.status, NULL, json_object('ref', old.ref_id), sim_ctx());
END;

CREATE TRIGGER IF NOT EXISTS sim_task_upd AFTER UPDATE OF status ON task_executions
WHEN old.status IS NOT new.status
BEGIN
  INSERT INTO sim_audit(kind,tbl,row_id,old,new,extra,ctx)
  VALUES('task', 'task_executions', new.id, old.status, new.status,
         json_object('stage', new.stage_id, 'name', new.name, 'impl', new.implementing_class), sim_ctx());
END;
CREATE TRIGGER IF NOT EXISTS sim_task_ins AFTER INSERT ON task_executions
BEGIN
  INSERT INTO sim_audit(kind,tbl,row_id,old,new,extra,ctx)
  VALUES('task_ins', 'task_executions', new.id, NULL, new.status,
         json_object('stage', new.stage_id, 'name', new.name, 'impl', new.implementing_class), sim_ctx());
END;

CREATE TRIGGER IF NOT EXISTS sim_q_ins AFTER INSERT ON queue_messages
BEGIN
  INSERT INTO sim_audit(kind,tbl,row_id,old,new,extra,ctx)
  VALUES('q_ins', 'queue_messages', CAST(new.id AS TEXT), NULL, new.message_type,
         json_object('payload', new.payload, 'mid', new.message_id, 'deliver_at', new.deliver_at,
                     'max_attempts', new.max_attempts, 'attempts', new.attempts), sim_ctx());
END;
CREATE TRIGGER IF NOT EXISTS sim_q_del AFTER DELETE ON queue_messages
BEGIN
  INSERT INTO sim_audit(kind,tbl,row_id,old,new,extra,ctx)
  VALUES('q_del', 'queue_messages', CAST(old.id AS TEXT), old.message_type, NULL,
         json_object('attempts', old.attempts, 'mid', old.message_id), sim_ctx());
END;
CREATE TRIGGER IF NOT EXISTS sim_q_lock AFTER UPDATE OF locked_until ON queue_messages
BEGIN
  INSERT INTO sim_audit(kind,tbl,row_id,old,new,extra,ctx)
  VALUES('q_lock', 'queue_messages', CAST(new.id AS TEXT), old.locked_until, new.locked_until,
         json_object('a_old', old.attempts, 'a_new', new.attempts, 'type', new.message_type), sim_ctx());
END;
CREATE TRIGGER IF NOT EXISTS sim_dlq_ins AFTER INSERT ON queue_messages_dlq
BEGIN
  INSERT INTO sim_audit(kind,tbl,row_id,old,new,extra,ctx)
  VALUES('dlq_ins', 'queue_messages_dlq', CAST(new.id AS TEXT), NULL, new.message_type,
         json_object('payload', new.payload, 'mid', new.message_id, 'orig', new.original_id,
                     'attempts', new.attempts, 'error', new.error), sim_ctx());
END;
CREATE TRIGGER IF NOT EXISTS sim_dlq_del AFTER DELETE ON queue_messages_dlq
BEGIN
  INSERT INTO sim_audit(kind,tbl,row_id,old,new,extra,ctx)
  VALUES('dlq_del', 'queue_messages_dlq', CAST(old.id AS TEXT), old.message_type, NULL,
         json_object('payload', old.payload, 'mid', old.message_id, 'orig', old.original_id), sim_ctx());
END;

CREATE TRIGGER IF NOT EXISTS sim_pm_ins AFTER INSERT ON processed_messages
BEGIN
  INSERT INTO sim_audit(kind,tbl,row_id,old,new,extra,ctx)
  VALUES('pm_ins', 'processed_messages', new.message_id, NULL, new.handler_type, NULL, sim_ctx());
END;
CREATE TRIGGER IF NOT EXISTS sim_pm_del AFTER DELETE ON processed_messages
BEGIN
  INSERT INTO sim_audit(kind,tbl,row_id,old,new,extra,ctx)
  VALUES('pm_del', 'processed_messages', old.message_id, old.handler_type, NULL, NULL, sim_ctx());
END;

CREATE TRIGGER IF NOT EXISTS sim_claim_ins AFTER INSERT ON stage_claims
BEGIN
  INSERT INTO sim_audit(kind,tbl,row_id,old,new,extra,ctx)
  VALUES('claim_ins', 'stage_claims', new.execution_id || '/' || new.claim_key, NULL, new.stage_id, NULL, sim_ctx());
END;
CREATE TRIGGER IF NOT EXISTS sim_claim_upd AFTER UPDATE ON stage_claims
BEGIN
  INSERT INTO sim_audit(kind,tbl,row_id,old,new,extra,ctx)
  VALUES('claim_upd', 'stage_claims', new.execution_id || '/' || new.claim_key, old.stage_id, new.stage_id, NULL, sim_ctx());
END;
CREATE TRIGGER IF NOT EXISTS sim_claim_del AFTER DELETE ON stage_claims
BEGIN
  INSERT INTO sim_audit(kind,tbl,row_id,old,new,extra,ctx)
  VALUES('claim_del', 'stage_claims', old.execution_id || '/' || old.claim_key, old.stage_id, NULL, NULL, sim_ctx());
END;
"""

EVENT_AUDIT_DDL = """
CREATE TRIGGER IF NOT EXISTS sim_ev_ins AFTER INSERT ON events
BEGIN
  INSERT INTO sim_audit(kind,tbl,row_id,old,new,extra,ctx)
  VALUES('ev_ins', 'events', CAST(new.sequence AS TEXT), NULL, new.event_type,
         json_object('entity_type', new.entity_type, 'entity_id', new.entity_id,
                     'workflow_id', new.workflow_id, 'data', new.data, 'source', new.source_handler), sim_ctx());
END;
"""


class StubBulkheads:
    """Same call shape as TaskBulkheadManager.execute_with_timeout, runs inline.
    (bulkman's thread pools are a dependency-internal source of nondeterminism.)"""

    def execute_with_timeout(self, task_type: str, func: Callable[..., Any], *args: Any,
                             timeout: float | None = None, **kwargs: Any) -> Any:
        from bulkman.config import ExecutionResult

        try:
            r = func(*args, **kwargs)
            return ExecutionResult(success=True, result=r, error=None, execution_time=0.0,
                                   bulkhead_name="sim")
        except Exception as e:  # SimCrash is a BaseException and passes through
            return ExecutionResult(success=False, result=None, error=e, execution_time=0.0,
                                   bulkhead_name="sim")

    def shutdown(self, wait: bool = True, timeout: float | None = None) -> None:
        pass

    def get_all_stats(self) -> dict[str, Any]:
        return {}


class StubCircuits:
    def get_circuit(self, workflow_execution_id: str, task_type: str) -> Any:
        return lambda f: f

    def clear_workflow_circuits(self, workflow_execution_id: str) -> None:
        pass


class World:
    def __init__(self, choices: Choices, knobs: Knobs | None = None, program: Any = None,
                 scratch_root: str | None = None) -> None:
        seams.install()
        self.choices = choices
        self.knobs = knobs or Knobs()
        self.program = program
        self.clock = SimClock()
        import random as _random

        self.jitter_rng = _random.Random(choices.seed ^ 0xA5A5A5)
        root = scratch_root or os.environ.get("VERIF_SCRATCH") or (
            "/dev/shm" if os.path.isdir("/dev/shm") and os.access("/dev/shm", os.W_OK) else None)
        self.dir = tempfile.mkdtemp(prefix="stabsim_", dir=root)
        self.db_path = os.path.join(self.dir, "w.db")
        self.conn_str = "sqlite:///" + self.db_path
        self.busy_timeout_s = 0.0
        self.sched: Any = None            # interleaving scheduler (engine W) or None
        self.incarnation = 0
        self.crashing = False
        self.conns: list[Any] = []
        self.commits: list[CommitRec] = []
        self.commit_count = 0             # engine commits that made something durable
        self.stmt_count = 0
        self.durable_seq = 0
        self.ledger: list[dict[str, Any]] = []
        self.handler_calls: dict[str, int] = {}      # message_id -> handler invocations
        # reads worth knowing about afterwards (the audit only sees writes): (context string, durable audit position at
        # the moment of the read, what was asked, parameter)
        self.read_marks: list[tuple[str, int, str, str]] = []
        self.sweep_marks: list[list[int]] = []      # [durable audit seq when a recovery sweep began, ... when it ended]
        self.handler_log: list[tuple[int, str, str, int, int]] = []  # (inc, type, message_id, commit_count, durable audit seq)
        self.bus_log: list[dict[str, Any]] = []
        self.ctx: dict[int, tuple[str, str]] = {}    # worker -> (handler, message id)
        self.thread_worker: dict[int, int] = {}
        self.crash_at: tuple[int, str] | None = None  # (global commit index, 'before'|'after')
        self.crashes: list[dict[str, Any]] = []
        self.io_fault_commits: dict[int, str] = {}   # global commit index -> error text
        self.io_fault_stmts: dict[int, str] = {}     # global statement index -> error text
        self.io_fault_handler_commits: dict[tuple[str, int], str] = {}   # (handler name, its k-th commit) -> error text
        self._handler_commit_seen: dict[str, int] = {}
        self.io_fault_pred: Callable[[Any, int], str | None] | None = None
        self.fault_after_event_n: int | None = None   # inject an I/O error right after the n-th INSERT INTO events
        self._ev_inserts = 0
        self._fault_next_on: Any = None
        self.faults_fired: dict[str, int] = {}
        self.probes: dict[str, int] = {}
        self.notes: list[str] = []
        self.hconn: Any = None
        self.store: Any = None
        self.queue: Any = None
        self.processor: Any = None
        self.registry: Any = None
        self.orchestrator: Any = None
        self.event_store: Any = None
        self.closed = False
        self.on_commit_hook: Callable[[CommitRec], None] | None = None
        self.delivery: tuple[str, int] | None = None   # (message type, commit_count at poll) of the in-flight delivery
        self.task_yield: Callable[[str], None] | None = None
        seams.CURRENT = self
        self._install_ulid()

    def _install_ulid(self) -> None:
        import ulid

        world = self
        self._real_ulid_gen = ulid.default_generator
        ulid.default_generator = ulid.ULIDGenerator(
            clock=lambda: world.clock.us // 1000,
            randomness=lambda _ts: world.id_bytes(10),
        )

    # ------------------------------------------------------------------
    # identity / context
    # ------------------------------------------------------------------
    def id_bytes(self, n: int) -> bytes:
        return self.choices.randbytes(n)

    def current_worker(self) -> int:
        return self.thread_worker.get(threading.get_ident(), 0)

    def ctx_string(self) -> str:
        wk = self.current_worker()
        h, mid = self.ctx.get(wk, ("idle", ""))
        return f"{self.incarnation}|{wk}|{h}|{mid}"

    def probe(self, name: str, n: int = 1) -> None:
        self.probes[name] = self.probes.get(name, 0) + n

    def fault(self, name: str, n: int = 1) -> None:
        self.faults_fired[name] = self.faults_fired.get(name, 0) + n

    # ------------------------------------------------------------------
    # seam callbacks
    # ------------------------------------------------------------------
    def register_conn(self, conn: Any) -> None:
        conn.sim_owner = self.current_worker()
        conn.sim_inc = self.incarnation
        self.conns.append(conn)

    def _alive(self, conn: Any) -> None:
        if self.crashing or conn.sim_inc != self.incarnation:
            raise SimCrash("connection of a dead incarnation")

    def on_sleep(self, d: float) -> None:
        if self.sched is not None and self.sched.in_worker():
            self.sched.sleep(d)
        else:
            self.clock.advance(d)

    def on_execute(self, conn: Any, sql: str, params: Any) -> Any:
        self._alive(conn)
        if self.sched is not None:
            self.sched.yield_point("stmt")
            self._alive(conn)
        self.stmt_count += 1
        self.clock.advance_us(self.knobs.tick_stmt_us)
        s = sql.lstrip()
        if s[:6].upper() == "PRAGMA":
            low = s.lower()
            if "busy_timeout" in low:
                sql = f"PRAGMA busy_timeout = {int(self.busy_timeout_s * 1000)}"
            elif "journal_mode" in low:
                sql = f"PRAGMA journal_mode = {self.knobs.journal_mode}"
            elif "mmap_size" in low:
                sql = "PRAGMA mmap_size = 0"
        if "parent_stage_id = :parent_id" in sql and s[:6].upper() == "SELECT":
            try:
                self.read_marks.append((self.ctx_string(), self.durable_seq, "synthetic_children", str((params or {}).get("parent_id", ""))))
            except Exception:
                pass
        err = self.io_fault_stmts.pop(self.stmt_count, None)
        if self._fault_next_on is conn:
            self._fault_next_on = None
            err = "disk I/O error"
            self.fault("io_after_event_append")
        if self.fault_after_event_n is not None and "INSERT INTO events" in sql:
            self._ev_inserts += 1
            if self._ev_inserts == self.fault_after_event_n:
                self._fault_next_on = conn
        if err is not None:
            self.fault("io_stmt:" + err)
            if "locked" not in err and conn.in_transaction:
                conn.raw_rollback()
            raise InjectedIOError(err)
        if self.sched is None:
            return conn.raw_execute(sql, params)
        return self.sched.locked_retry(lambda: conn.raw_execute(sql, params), conn)

    def on_executescript(self, conn: Any, script: str) -> Any:
        self._alive(conn)
        self.stmt_count += 1
        return sqlite3.Connection.executescript(conn, script)

    def on_commit(self, conn: Any) -> None:
        self._alive(conn)
        if self.sched is not None:
            self.sched.yield_point("commit")
            self._alive(conn)
        if not conn.in_transaction:
            conn.raw_commit()
            return
        n = self.commit_count + 1
        if self.crash_at == (n, "before"):
            self._crash_now(n, "before")
        err = self.io_fault_commits.pop(n, None)
        if self.io_fault_handler_commits:
            # targeted variant: the k-th commit made while handling a message of a given type
            hd = self.ctx.get(self.current_worker(), ("idle", ""))[0]
            for key in [k for k in self.io_fault_handler_commits if k[0] == hd]:
                self._handler_commit_seen[hd] = self._handler_commit_seen.get(hd, 0) + 1
                break
            hit = (hd, self._handler_commit_seen.get(hd, 0))
            if hit in self.io_fault_handler_commits:
                err = self.io_fault_handler_commits.pop(hit)
        if self.io_fault_pred is not None and err is None:
            err = self.io_fault_pred(self, n)       # a check-specific, state-dependent commit fault
        if self._fault_next_on is conn:
            self._fault_next_on = None
            err = "disk I/O error"
            self.fault("io_after_event_append")
        if err is not None:
            self.fault("io_commit:" + err)
            if "locked" not in err:
                conn.raw_rollback()
            raise InjectedIOError(err)
        if self.sched is None:
            conn.raw_commit()
        else:
            self.sched.locked_retry(conn.raw_commit, conn)
        self.commit_count = n
        self.clock.advance_us(self.knobs.tick_commit_us)
        row = conn.raw_execute("SELECT max(seq) FROM sim_audit").fetchone()
        hi = row[0] or 0
        rec = CommitRec(n=n, inc=self.incarnation, worker=conn.sim_owner, lo=self.durable_seq, hi=hi,
                        ctx=self.ctx_string(), t_us=self.clock.us)
        self.durable_seq = max(self.durable_seq, hi)
        self.commits.append(rec)
        if self.sched is not None:
            self.sched.notify_progress()
        if self.on_commit_hook is not None:
            self.on_commit_hook(rec)
        if self.crash_at == (n, "after"):
            self._crash_now(n, "after")

    def on_rollback(self, conn: Any) -> None:
        self._alive(conn)
        if self.sched is not None:
            self.sched.yield_point("rollback")
            self._alive(conn)
        conn.raw_rollback()
        if self.sched is not None:
            self.sched.notify_progress()

    def _crash_now(self, n: int, when: str) -> None:
        self.crashing = True
        self.crash_at = None
        self.crashes.append({"commit": n, "when": when, "inc": self.incarnation,
                             "ctx": self.ctx_string(), "t_us": self.clock.us,
                             "ledger_len": len(self.ledger), "site": self.crash_site(n, when)})
        self.fault("crash")
        raise SimCrash(f"crash {when} commit {n}")

    def crash_site(self, n: int, when: str) -> str:
        """Semantic name of the crash point: the in-flight message type plus what its handling has
        already made durable, commit by commit (L lock/poll, S>x stage status, T>x task status,
        W>x workflow status, I stage insert, Q(types) queue inserts, P processed mark, D queue delete)."""
        if self.delivery is None:
            return "idle:" + self.ctx_string().split("|")[2]
        mtype, c0 = self.delivery
        last = n - 1 if when == "before" else n
        codes = []
        for c in self.commits:
            if c.n <= c0 or c.n > last or c.inc != self.incarnation:
                continue
            rows = self.hquery("SELECT kind, old, new FROM sim_audit WHERE seq > ? AND seq <= ? ORDER BY seq", (c.lo, c.hi))
            code = ""
            qs = []
            for r in rows:
                k = r["kind"]
                if k == "q_lock" and "L" not in code:
                    code += "L"
                elif k == "stage" and r["old"] != r["new"]:
                    code += "S>" + str(r["new"])[:4]
                elif k == "task" and r["old"] != r["new"]:
                    code += "T>" + str(r["new"])[:4]
                elif k == "wf" and r["old"] != r["new"]:
                    code += "W>" + str(r["new"])[:4]
                elif k == "stage_ins" and "I" not in code:
                    code += "I"
                elif k == "q_ins":
                    qs.append(str(r["new"]))
                elif k == "pm_ins" and "P" not in code:
                    code += "P"
                elif k == "q_del" and "D" not in code:
                    code += "D"
            if qs:
                code += "Q(" + ",".join(sorted(set(qs))) + ")"
            codes.append(code or "-")
        return mtype + ":" + "|".join(codes)

    # ------------------------------------------------------------------
    # incarnations
    # ------------------------------------------------------------------
    def _reset_process_globals(self) -> None:
        from stabilize.events import reset_event_bus, reset_event_migrator, reset_event_recorder
        from stabilize.events import txn_scope
        from stabilize.finalizers import reset_finalizer_registry
        from stabilize.handlers.run_task.handler import RunTaskHandler
        from stabilize.orchestrator import Orchestrator
        from stabilize.persistence.connection import ConnectionManager, SingletonMeta
        from stabilize.persistence.sqlite_config import reset_sqlite_config
        from stabilize.queue.dedup import reset_deduplicator
        from stabilize.resilience.cancellation import reset_cancellation_state
        from stabilize.resilience.config import reset_handler_config
        import stabilize.stages.builder as sb

        for c in self.conns:
            try:
                if not c.sim_dead:
                    sqlite3.Connection.close(c)
                    c.sim_dead = True
            except Exception:
                pass
        self.conns = []
        # drop the singleton without calling close_all on connections we already closed
        with SingletonMeta._lock:
            SingletonMeta._instances.pop(ConnectionManager, None)
        reset_deduplicator()
        reset_event_bus()
        reset_event_recorder()
        reset_event_migrator()
        reset_cancellation_state()
        reset_finalizer_registry()
        reset_handler_config()
        reset_sqlite_config()
        RunTaskHandler._executing_tasks.clear()
        Orchestrator._instance = None
        txn_scope._local.__dict__.clear()
        sb._default_factory = None
        self.ctx.clear()

    def boot(self) -> None:
        """Start a fresh worker-process incarnation on the same database file."""
        from stabilize.persistence.sqlite.store import SqliteWorkflowStore
        from stabilize.queue.dedup import get_deduplicator
        from stabilize.queue.processor.config import QueueProcessorConfig
        from stabilize.queue.processor.processor import QueueProcessor
        from stabilize.queue.sqlite.queue import SqliteQueue
        from stabilize.resilience.config import HandlerConfig
        from stabilize.tasks.registry import TaskRegistry
        from stabilize.orchestrator import Orchestrator

        first = self.incarnation == 0
        self._reset_process_globals()
        self.incarnation += 1
        self.crashing = False
        k = self.knobs
        get_deduplicator(expected_items=k.bloom_capacity)
        self.ctx[self.current_worker()] = ("boot", "")
        if first:
            h = self.harness()
            h.execute("CREATE TABLE IF NOT EXISTS sim_audit(seq INTEGER PRIMARY KEY AUTOINCREMENT, "
                      "kind TEXT, tbl TEXT, row_id TEXT, old TEXT, new TEXT, extra TEXT, ctx TEXT)")
            h.commit()
        self.store = SqliteWorkflowStore(self.conn_str, create_tables=first)
        self.queue = SqliteQueue(self.conn_str, lock_duration=timedelta(seconds=k.lock_duration_s),
                                 max_attempts=k.max_attempts)
        if first:
            self.queue._create_table()
            self._install_audit()
        # documented configuration seam: environment variables read by HandlerConfig.from_env()
        os.environ["STABILIZE_HANDLER_MAX_RETRIES"] = str(k.concurrency_max_retries)
        os.environ["STABILIZE_HANDLER_RETRY_DELAY_S"] = str(k.handler_retry_delay_s)
        os.environ["STABILIZE_MAX_STAGE_WAIT_RETRIES"] = str(k.max_stage_wait_retries)
        from stabilize.resilience.config import get_handler_config, reset_handler_config

        reset_handler_config()
        self.handler_config = get_handler_config()
        assert self.handler_config.max_stage_wait_retries == k.max_stage_wait_retries
        self.registry = TaskRegistry()
        if self.program is not None:
            self.program.install(self)
        if k.event_sourcing:
            self._configure_events(first)
        cfg = QueueProcessorConfig(
            retry_delay=timedelta(seconds=k.handler_retry_delay_s),
            enable_deduplication=True,
            dedup_trust_negative_cache=k.dedup_trust_negative,
            enable_lock_heartbeat=False,
            recover_on_start=True,
        )
        self.processor = QueueProcessor(
            self.queue, config=cfg, store=self.store, handler_config=self.handler_config,
            task_registry=self.registry, bulkhead_manager=StubBulkheads(),  # type: ignore[arg-type]
            circuit_factory=StubCircuits(),  # type: ignore[arg-type]
        )
        self.orchestrator = Orchestrator(self.queue, self.store)
        self._instrument_processor()
        self.ctx[self.current_worker()] = ("idle", "")

    def _install_audit(self) -> None:
        h = self.harness()
        h.executescript(AUDIT_DDL)
        h.commit()

    def _configure_events(self, first: bool) -> None:
        from stabilize.events import SqliteEventStore, configure_event_recorder, get_event_bus

        self.event_store = SqliteEventStore(self.conn_str, create_tables=first)
        if first:
            h = self.harness()
            h.executescript(EVENT_AUDIT_DDL)
            h.commit()
        configure_event_recorder(self.event_store, publish_to_bus=True)
        bus = get_event_bus()
        world = self

        def on_event(ev: Any) -> None:
            dur = world.hquery("SELECT 1 FROM events WHERE sequence = ?", (ev.sequence,))
            world.bus_log.append({
                "durable": bool(dur),
                "seq": ev.sequence, "type": ev.event_type.value, "entity": ev.entity_id,
                "inc": world.incarnation, "commit_count": world.commit_count,
                "durable_seq": world.durable_seq,
            })

        bus.subscribe("sim-sub", on_event)

    def _instrument_processor(self) -> None:
        world = self
        proc = self.processor
        orig_handle = proc._handle_message

        def handle_with_ctx(message: Any) -> None:
            wk = world.current_worker()
            prev = world.ctx.get(wk, ("idle", ""))
            world.ctx[wk] = (type(message).__name__, str(getattr(message, "message_id", "")))
            try:
                orig_handle(message)
            finally:
                world.ctx[wk] = prev

        proc._handle_message = handle_with_ctx  # type: ignore[method-assign]

        from stabilize.queue.processor.handler_base import MessageHandler

        class Counting(MessageHandler):  # type: ignore[type-arg]
            def __init__(self, inner: Any) -> None:
                self.inner = inner

            @property
            def message_type(self) -> Any:
                return self.inner.message_type

            def handle(self, message: Any) -> None:
                mid = str(getattr(message, "message_id", ""))
                world.handler_calls[mid] = world.handler_calls.get(mid, 0) + 1
                world.handler_log.append((world.incarnation, type(message).__name__, mid, world.commit_count, world.durable_seq))
                self.inner.handle(message)

        for mt, h in list(proc._handlers.items()):
            proc.replace_handler(Counting(h))

    def crash_restart(self) -> None:
        """Called by an engine after SimCrash unwound: drop all process memory."""
        self.boot()

    # ------------------------------------------------------------------
    # harness access (not part of the system under test)
    # ------------------------------------------------------------------
    def harness(self) -> Any:
        if self.hconn is None:
            cur, seams.CURRENT = seams.CURRENT, None
            try:
                self.hconn = seams.REAL.connect(self.db_path, timeout=0, check_same_thread=False,
                                                factory=seams.SimConnection)
            finally:
                seams.CURRENT = cur
            self.hconn.sim_harness = True
            self.hconn.row_factory = sqlite3.Row
        return self.hconn

    def hquery(self, sql: str, params: Any = ()) -> list[Any]:
        return self.harness().execute(sql, params).fetchall()

    def hwrite(self, sql: str, params: Any = ()) -> int:
        """A harness-side durable change (transport fault such as delay/reorder/lock lapse)."""
        wk = self.current_worker()
        prev = self.ctx.get(wk, ("idle", ""))
        self.ctx[wk] = ("harness", "")
        try:
            h = self.harness()
            try:
                cur = h.execute(sql, params)
                h.commit()
            except sqlite3.OperationalError as e:
                # a worker connection sits on the write lock (an injected busy error left its transaction open, as a
                # real SQLITE_BUSY does until the caller commits or rolls back): the transport fault is skipped
                if "locked" not in str(e).lower() and "busy" not in str(e).lower():
                    raise
                try:
                    h.rollback()
                except Exception:
                    pass
                self.probe("harness_write_skipped_locked")
                return 0
            row = h.execute("SELECT max(seq) FROM sim_audit").fetchone()
            self.durable_seq = max(self.durable_seq, row[0] or 0)
            return cur.rowcount
        finally:
            self.ctx[wk] = prev

    def as_client(self, name: str = "client") -> Any:
        """Context manager for actions of a *client* process (submit, cancel, send_signal, injected
        messages): tagged in the audit, and never a crash point of the simulated worker."""
        import contextlib

        world = self

        @contextlib.contextmanager
        def cm() -> Any:
            wk = world.current_worker()
            prev = world.ctx.get(wk, ("idle", ""))
            saved, world.crash_at = world.crash_at, None
            world.ctx[wk] = (name, "")
            try:
                yield
            finally:
                world.ctx[wk] = prev
                if world.crash_at is None:
                    if saved is not None and saved[0] <= world.commit_count:
                        saved = (world.commit_count + 1, saved[1])   # the client's own commits do not count
                    world.crash_at = saved

        return cm()

    def audit(self, since: int = 0) -> list[dict[str, Any]]:
        rows = self.hquery("SELECT seq,kind,tbl,row_id,old,new,extra,ctx FROM sim_audit WHERE seq > ? ORDER BY seq",
                           (since,))
        out = []
        for r in rows:
            d = dict(r)
            if d["extra"]:
                try:
                    d["extra"] = json.loads(d["extra"])
                except Exception:
                    pass
            out.append(d)
        return out

    def queue_rows(self) -> list[dict[str, Any]]:
        return [dict(r) for r in self.hquery(
            "SELECT id,message_id,message_type,payload,deliver_at,attempts,max_attempts,locked_until,version "
            "FROM queue_messages ORDER BY id")]

    def dlq_rows(self) -> list[dict[str, Any]]:
        return [dict(r) for r in self.hquery("SELECT * FROM queue_messages_dlq ORDER BY id")]

    def run_sweep(self) -> Any:
        """The real recovery sweep, bracketed by the durable audit position at its start and end (what the sweep can
        have read lies before the end mark; what became durable after the start mark may have been missed)."""
        mark = [self.durable_seq, -1]
        self.sweep_marks.append(mark)
        wk = self.current_worker()
        prev = self.ctx.get(wk, ("idle", ""))
        self.ctx[wk] = ("recovery", "")
        try:
            return self.processor.run_recovery()
        finally:
            self.ctx[wk] = prev
            mark[1] = self.durable_seq

    def record_execution(self, key: str, stage: Any, result: str) -> dict[str, Any]:
        arm = self.hquery("SELECT count(*) AS c FROM sim_audit WHERE kind='stage' AND row_id=? AND new='NOT_STARTED' "
                          "AND old IS NOT 'NOT_STARTED'", (stage.id,))[0]["c"]
        e = {
            "i": len(self.ledger), "key": key, "stage_ref": stage.ref_id, "stage_id": stage.id, "arm": arm,
            "inc": self.incarnation, "worker": self.current_worker(), "t_us": self.clock.us,
            "commit_count": self.commit_count, "audit_seq": self.durable_seq,
            "ctx": copy.deepcopy(stage.context), "result": result,
            "msg": self.ctx.get(self.current_worker(), ("", ""))[1],
        }
        self.ledger.append(e)
        return e

    # ------------------------------------------------------------------
    def close(self) -> None:
        if self.closed:
            return
        self.closed = True
        try:
            for c in self.conns:
                try:
                    if not c.sim_dead:
                        sqlite3.Connection.close(c)
                        c.sim_dead = True
                except Exception:
                    pass
            if self.hconn is not None:
                try:
                    sqlite3.Connection.close(self.hconn)
                except Exception:
                    pass
            try:
                self._reset_process_globals()
            except Exception:
                pass
        finally:
            if seams.CURRENT is self:
                seams.CURRENT = None
            try:
                import ulid

                ulid.default_generator = self._real_ulid_gen
            except Exception:
                pass
            shutil.rmtree(self.dir, ignore_errors=True)

    def __enter__(self) -> "World":
        return self

    def __exit__(self, *a: Any) -> None:
        self.close()
