"""Engine D -- one worker, seeded delivery schedule (and the crash recipe of
engine K, which is D plus an armed crash point and restart).

The harness is the poll loop.  Each step it decides *which deliverable row*
the real ``SqliteQueue.poll_one`` will see first (by moving that row's
``deliver_at`` -- a transport delay/reorder fault), calls the real
``QueueProcessor.process_one`` and decides whether the acknowledgement is lost.
When nothing is deliverable the clock jumps to the next ``deliver_at`` /
``locked_until``.
"""
from __future__ import annotations

import json
from dataclasses import dataclass, field
from typing import Any, Callable

from . import seams
from .seams import SimCrash
from .world import World

DELIVERABLE_SQL = """
SELECT id, message_type, payload, attempts, locked_until, deliver_at FROM queue_messages
WHERE datetime(deliver_at) <= datetime('now', 'utc')
  AND (locked_until IS NULL OR datetime(locked_until) < datetime('now', 'utc'))
  AND attempts < :max_attempts
ORDER BY deliver_at, id
"""


@dataclass
class DOpts:
    reorder_p: float = 0.0          # probability that a step takes a non-FIFO choice
    lost_ack_p: float = 0.0
    max_lost_acks_per_msg: int = 2
    lapse_p: float = 0.0            # probability per step of lapsing one held lock early
    max_steps: int = 3000
    dlq_interval_s: float = 30.0
    stale_bias: bool = False        # prefer the oldest row when reordering (stale message hazards)
    max_injected_delay_s: float = 300.0   # lost acks stop once this much lock-wait was injected (keeps runs
                                          # away from the engine's own wait time-outs, which no property covers)


@dataclass
class RunResult:
    steps: int = 0
    quiescent: bool = False
    handler_errors: list[str] = field(default_factory=list)
    crashes: int = 0
    deliveries: list[tuple[int, str, int]] = field(default_factory=list)  # (row id, type, attempts before)
    reorders: int = 0
    lost_acks: int = 0
    lapses: int = 0
    clock_jumps: int = 0
    aborted: str | None = None


class EngineD:
    def __init__(self, world: World, opts: DOpts | None = None) -> None:
        self.w = world
        self.o = opts or DOpts()
        self.res = RunResult()
        self._early = 0
        self._last_dlq = world.clock.us
        self.lost_by_row: dict[int, int] = {}
        self.injected_delay_s = 0.0
        self.between: Callable[["EngineD"], None] | None = None   # hook called before every step
        self.after_delivery: Callable[["EngineD", int, str], None] | None = None
        self.drop_next_ack = False
        self.wf_id: str | None = None

    # ------------------------------------------------------------------
    def submit(self, program: Any = None) -> str:
        """Client side: store the workflow and push StartWorkflow (not a worker crash point)."""
        w = self.w
        program = program or w.program
        wf = program.build_workflow()
        prev = w.ctx.get(0, ("idle", ""))
        w.ctx[0] = ("client", "")
        saved, w.crash_at = w.crash_at, None
        try:
            w.store.store(wf)
            w.orchestrator.start(wf, handler_config=w.handler_config)
        finally:
            w.ctx[0] = prev
            w.crash_at = saved
        self.wf_id = wf.id
        self.client_commits = w.commit_count
        return wf.id

    # ------------------------------------------------------------------
    def _patch_ack(self) -> None:
        q = self.w.queue
        if getattr(q, "_sim_ack_patched", False):
            return
        orig = q.ack
        eng = self

        def ack(message: Any) -> None:
            if eng.drop_next_ack:
                eng.drop_next_ack = False
                eng.w.fault("lost_ack")
                eng.res.lost_acks += 1
                return
            orig(message)

        q.ack = ack  # type: ignore[method-assign]
        q._sim_ack_patched = True

    prefer: Any = None      # optional callable(rows) -> index of the row to deliver next, or None for the seeded choice

    def deliverable(self) -> list[Any]:
        return self.w.hquery(DELIVERABLE_SQL, {"max_attempts": self.w.queue.max_attempts})

    def _next_wakeup_us(self) -> int | None:
        """Earliest time at which some non-exhausted row becomes deliverable."""
        rows = self.w.hquery(
            "SELECT deliver_at, locked_until FROM queue_messages WHERE attempts < :m",
            {"m": self.w.queue.max_attempts})
        best: int | None = None
        for r in rows:
            t = _iso_us(r["deliver_at"])
            if r["locked_until"]:
                # visible when datetime(locked_until) < datetime(now): next whole second after it
                lu = _iso_us(r["locked_until"])
                lu = (lu // 1_000_000 + 1) * 1_000_000
                t = max(t, lu)
            best = t if best is None else min(best, t)
        return best

    def step(self) -> bool:
        """One delivery.  False when the queue is drained (quiescent)."""
        w, o = self.w, self.o
        ch = w.choices
        self._patch_ack()
        if self.between is not None:
            self.between(self)
        if w.clock.us - self._last_dlq >= o.dlq_interval_s * 1e6:
            self._last_dlq = w.clock.us
            w.processor._check_dlq()
        rows = self.deliverable()
        guard = 0
        while not rows:
            total = w.hquery("SELECT count(*) AS c FROM queue_messages")[0]["c"]
            if total == 0:
                return False
            nxt = self._next_wakeup_us()
            if nxt is None:
                # only attempts-exhausted rows are left: the periodic sweep dead-letters them
                w.processor._check_dlq()
                left = w.hquery("SELECT count(*) AS c FROM queue_messages")[0]["c"]
                if left == 0:
                    return False
                guard += 1
                if guard > 3:
                    self.res.aborted = "undeliverable rows remain"
                    return False
                continue
            if nxt > w.clock.us:
                w.clock.set_at_least(nxt)
                self.res.clock_jumps += 1
            else:
                w.clock.advance(1.0)
            guard += 1
            if guard > 50:
                self.res.aborted = "clock jump loop"
                return False
            rows = self.deliverable()
        # optional early lapse of a held lock (lost-ack redelivery while other work is pending)
        if o.lapse_p > 0 and ch.flip("lapse", o.lapse_p):
            held = w.hquery("SELECT id FROM queue_messages WHERE locked_until IS NOT NULL AND attempts < :m ORDER BY id",
                            {"m": w.queue.max_attempts})
            if held:
                hid = held[ch.pick("lapse_row", len(held))]["id"]
                w.hwrite("UPDATE queue_messages SET locked_until = NULL WHERE id = ?", (hid,))
                w.fault("lock_lapse")
                self.res.lapses += 1
                rows = self.deliverable()
        idx = 0
        pref = self.prefer(rows) if self.prefer is not None and len(rows) > 1 else None
        if pref is not None:
            idx = pref          # a check directs this delivery (still one of the deliverable rows: a legal schedule)
        elif len(rows) > 1 and o.reorder_p > 0 and ch.flip("reorder", o.reorder_p):
            if o.stale_bias and ch.flip("stale", 0.5):
                idx = min(range(len(rows)), key=lambda i: rows[i]["id"])
            else:
                idx = ch.pick("deliver", len(rows))
        row = rows[idx]
        if idx != 0:
            self._early += 1
            early = seams.REAL.datetime.fromtimestamp(946684800 - self._early, seams._dt.UTC).isoformat()
            w.hwrite("UPDATE queue_messages SET deliver_at = ? WHERE id = ?", (early, row["id"]))
            w.fault("reorder")
            self.res.reorders += 1
        rid = row["id"]
        if o.lost_ack_p > 0 and self.lost_by_row.get(rid, 0) < o.max_lost_acks_per_msg \
                and self.injected_delay_s < o.max_injected_delay_s and ch.flip("lost_ack", o.lost_ack_p):
            self.lost_by_row[rid] = self.lost_by_row.get(rid, 0) + 1
            self.injected_delay_s += w.knobs.lock_duration_s
            self.drop_next_ack = True
        self.res.deliveries.append((rid, row["message_type"], row["attempts"]))
        w.delivery = (row["message_type"], w.commit_count)
        try:
            w.processor.process_one()
        except SimCrash:
            raise
        except Exception as e:  # process_one re-raises after rescheduling the row
            self.res.handler_errors.append(f"{row['message_type']}#{rid}: {type(e).__name__}: {e}")
            w.probe("handler_error")
        finally:
            self.drop_next_ack = False
        w.delivery = None
        self.res.steps += 1
        if self.after_delivery is not None:
            self.after_delivery(self, rid, row["message_type"])
        return True

    def drain(self, max_steps: int | None = None) -> RunResult:
        n = 0
        limit = max_steps if max_steps is not None else self.o.max_steps
        while n < limit:
            if not self.step():
                self.res.quiescent = self.res.aborted is None
                return self.res
            n += 1
        self.res.quiescent = False
        self.res.aborted = self.res.aborted or f"step budget {limit} exhausted"
        return self.res

    # ------------------------------------------------------------------
    # crash recipe (engine K)
    # ------------------------------------------------------------------
    def restart_with_recovery(self, sweeps: int = 1, lapse_first: bool = True) -> None:
        """All memory dropped; locks lapse; fresh processor with recovery; (caller drains)."""
        w = self.w
        w.delivery = None
        w.crash_restart()
        self.res.crashes += 1
        if lapse_first:
            w.clock.advance(w.knobs.lock_duration_s + 2.0)
        for _ in range(sweeps):
            w.run_sweep()


def _iso_us(s: str) -> int:
    d = seams.REAL.datetime.fromisoformat(s)
    if d.tzinfo is None:
        d = d.replace(tzinfo=seams._dt.UTC)
    return int(d.timestamp()) * 1_000_000 + d.microsecond


# ----------------------------------------------------------------------
# state extraction
# ----------------------------------------------------------------------
def final_state(w: World, wf_id: str) -> dict[str, Any]:
    """Durable end state keyed by stable names (ref ids; synthetic stages by parent/name)."""
    wf = w.hquery("SELECT status, is_canceled FROM pipeline_executions WHERE id = ?", (wf_id,))
    srows = w.hquery(
        "SELECT id, ref_id, name, status, parent_stage_id, synthetic_stage_owner, context, outputs, version "
        "FROM stage_executions WHERE execution_id = ?", (wf_id,))
    by_id = {r["id"]: r for r in srows}
    stages: dict[str, Any] = {}
    dup: list[str] = []
    for r in sorted(srows, key=lambda x: x["id"]):   # ULIDs: creation order
        if r["parent_stage_id"]:
            par = by_id.get(r["parent_stage_id"])
            key = f"{par['ref_id'] if par else '?'}/{r['synthetic_stage_owner']}/{r['name']}"
        else:
            key = r["ref_id"]
        trows = w.hquery("SELECT name, status FROM task_executions WHERE stage_id = ? ORDER BY id", (r["id"],))
        ent = {"status": r["status"], "tasks": [(t["name"], t["status"]) for t in trows],
               "outputs": json.loads(r["outputs"] or "{}"), "context": json.loads(r["context"] or "{}"),
               "id": r["id"], "synthetic": bool(r["parent_stage_id"])}
        if key in stages:
            dup.append(key)
            n = 2
            while f"{key}#{n}" in stages:
                n += 1
            key = f"{key}#{n}"
        stages[key] = ent
    return {
        "wf_status": wf[0]["status"] if wf else None,
        "is_canceled": wf[0]["is_canceled"] if wf else None,
        "stages": stages,
        "dup_synthetic": dup,
        "queue": len(w.queue_rows()),
        "dlq": len(w.dlq_rows()),
    }


def ledger_counts(w: World) -> dict[str, int]:
    c: dict[str, int] = {}
    for e in w.ledger:
        c[e["key"]] = c.get(e["key"], 0) + 1
    return c
