"""One integer decides everything: the seeded choice trace.

Every decision a run takes (program shape, which message is delivered next,
which worker runs next, where a crash lands, ...) is a ``Choices.pick`` /
``Choices.flip`` call.  In *generate* mode the value is drawn from
``random.Random(seed)`` and recorded; in *replay* mode recorded values are
returned, and once the recording is exhausted (or a recorded value does not
fit the arity any more, which happens while a trace is being minimised) the
default ``0`` is returned -- by convention 0 always means "the boring choice":
FIFO, same worker, no fault.

Logging never calls into this module.
"""
from __future__ import annotations

import random
from typing import Any, Sequence


class Choices:
    __slots__ = ("seed", "rng", "trace", "replay", "pos", "overrun", "forced", "idrng")

    def __init__(self, seed: int, replay: Sequence[Sequence[Any]] | None = None,
                 forced: dict[str, int] | None = None) -> None:
        self.seed = seed
        self.rng = random.Random(seed)
        self.trace: list[list[Any]] = []
        self.replay = [list(x) for x in replay] if replay is not None else None
        self.pos = 0
        self.overrun = 0
        # forced: label -> value, used by checks that want to pin one decision
        # (e.g. the crash point) while everything else stays seeded.
        self.forced = forced or {}
        self.idrng = random.Random((seed << 1) ^ 0x5DEECE66D)

    # -- core -------------------------------------------------------------
    def pick(self, label: str, n: int) -> int:
        """Choose an int in [0, n). n == 1 is recorded too (keeps traces aligned)."""
        if n <= 0:
            raise ValueError(f"pick({label!r}, {n})")
        if label in self.forced:
            v = self.forced[label] % n
        elif self.replay is not None:
            v = 0
            if self.pos < len(self.replay):
                rec = self.replay[self.pos]
                rv = rec[1]
                # a value recorded for a *different* decision (the trace was edited while being
                # minimised and got out of step) is ignored: the boring default is taken instead
                if rec[0] == label and isinstance(rv, int) and 0 <= rv < n:
                    v = rv
            else:
                self.overrun += 1
            self.pos += 1
        else:
            v = self.rng.randrange(n) if n > 1 else 0
        self.trace.append([label, v])
        return v

    def flip(self, label: str, p: float) -> bool:
        """True with probability p.  Recorded as 1/0; default (replay overrun) is False."""
        if label in self.forced:
            v = 1 if self.forced[label] else 0
        elif self.replay is not None:
            v = 0
            if self.pos < len(self.replay):
                rec = self.replay[self.pos]
                rv = rec[1]
                if rec[0] == label and rv in (0, 1) and 0.0 < p:
                    v = rv
                if p >= 1.0:
                    v = 1
            else:
                self.overrun += 1
            self.pos += 1
        else:
            v = 1 if self.rng.random() < p else 0
        self.trace.append([label, v])
        return bool(v)

    def choice(self, label: str, seq: Sequence[Any]) -> Any:
        return seq[self.pick(label, len(seq))]

    def weighted(self, label: str, weights: Sequence[float]) -> int:
        """Index drawn proportionally to weights; index 0 is the replay default."""
        n = len(weights)
        if label in self.forced or self.replay is not None:
            return self.pick(label, n)
        tot = float(sum(weights))
        x = self.rng.random() * tot
        acc = 0.0
        v = n - 1
        for i, w in enumerate(weights):
            acc += w
            if x < acc:
                v = i
                break
        self.trace.append([label, v])
        return v

    def randbytes(self, n: int) -> bytes:
        """Identifier randomness: derived from the seed but NOT part of the trace
        (identifier bytes never steer behaviour; keeping them out keeps traces short)."""
        return self.idrng.randbytes(n)
