"""Triage helper: re-execute a replay file and print the durable timeline.

    python -m sim.inspect replays/C01/<file>.json
"""
from __future__ import annotations

import json
import logging
import sys


def timeline(h, max_rows: int = 400) -> None:
    ci = 0
    for r in h.audit[:max_rows * 10]:
        k = r["kind"]
        if k in ("stage", "task", "wf") and r["old"] == r["new"]:
            if k != "stage":
                continue
            e = r["extra"] or {}
            if e.get("jb_old") == e.get("jb_new") and e.get("jf_old") == e.get("jf_new"):
                continue
        c = h.commit_of(r["seq"])
        cn = h.commits[c].n if c is not None else "-"
        name = r["row_id"]
        if k.startswith("stage"):
            name = h.key_of_stage(r["row_id"])
        elif k.startswith("task"):
            name = (h.task_info.get(r["row_id"]) or {}).get("name", name)
        extra = ""
        if k == "q_ins":
            p = json.loads((r["extra"] or {}).get("payload") or "{}")
            sid = p.get("stage_id")
            extra = " stage=" + (h.key_of_stage(sid) if sid else "-")
            if p.get("task_id"):
                extra += " task=" + (h.task_info.get(p["task_id"]) or {}).get("name", "?")
            if p.get("retry_count"):
                extra += f" retry={p['retry_count']}"
            extra += f" deliver_at={(r['extra'] or {}).get('deliver_at', '')[11:23]}"
        if k in ("q_lock", "pm_ins", "pm_del", "task_ins"):
            continue
        print(f"  c{cn:>4} #{r['seq']:<5} {k:10} {str(name)[:34]:34} {str(r['old'])[:14]:>14} -> {str(r['new'])[:16]:16} [{r['ctx']}]{extra}")


def main() -> int:
    logging.disable(logging.CRITICAL)
    from sim.harness import load_check, setup_sys_path

    setup_sys_path()
    doc = json.load(open(sys.argv[1]))
    rep = doc.get("replay", doc)
    print("violation:", json.dumps(doc.get("violation"), indent=1)[:1500])
    print("program:", json.dumps(rep.get("program"))[:3000])
    print("knobs:", rep.get("knobs"), "points:", rep.get("points"), "second:", rep.get("second"))
    import checks.common as cc

    orig_finish = cc.Exec.finish

    def finish(self):  # type: ignore[no-untyped-def]
        fs, h = orig_finish(self)
        print(f"---- execution: crashes={self.world.crashes} commits={self.world.commit_count}")
        if "-q" not in sys.argv:
            timeline(h)
        print("  ledger:", [(e["i"], e["key"], e.get("it"), e["result"], "inc%d" % e["inc"], "c%d" % e["commit_count"]) for e in h.ledger])
        print("  final:", fs["wf_status"], {k: v["status"] for k, v in fs["stages"].items()}, "queue", fs["queue"], "dlq", fs["dlq"])
        return fs, h

    cc.Exec.finish = finish  # type: ignore[method-assign]
    orig_run_w = cc.run_w

    def run_w(*a, **kw):  # type: ignore[no-untyped-def]
        r = orig_run_w(*a, **kw)
        print(f"---- engine-W execution: end={r['end']} commits={r['commits']} stats={r['stats']}")
        if "-q" not in sys.argv:
            timeline(r["h"])
        print("  ledger:", [(e["i"], e["key"], e.get("it"), e["result"], "w%s" % e.get("worker"), "c%d" % e["commit_count"]) for e in r["ledger"]])
        fs = r["fs"]
        print("  final:", fs["wf_status"], {k: v["status"] for k, v in fs["stages"].items()}, "queue", fs["queue"], "dlq", fs["dlq"])
        return r

    cc.run_w = run_w  # type: ignore[assignment]
    import checks.dflow as _df  # noqa: F401  (imports run_w lazily from checks.common)
    mod = load_check(rep["check"])
    vs = mod.replay_one(rep)
    print("violations:", json.dumps([{k: v for k, v in x.items() if k != "replay"} for x in vs], indent=1)[:3000])
    return 0


if __name__ == "__main__":
    sys.exit(main())
