#!/bin/bash
# deep pass: every registered check, thorough tier, default seed, one after the other on all cores
#   ./deep.sh <budget seconds per check> [seed]
cd "$(dirname "$0")"
budget=${1:-600}; seed=${2:-1}
mkdir -p scratch/deep
for c in $(/venv/bin/python -c "import json; print(' '.join(x['property_id'] for x in json.load(open('MANIFEST.json'))['checks']))"); do
  VERIF_SEED=$seed VERIF_BUDGET_S=$budget ./check $c --tier thorough > scratch/deep/$c.$seed.log 2>&1
  echo "== $c seed=$seed rc=$? $(grep -c '^KNOWN-FINDING' scratch/deep/$c.$seed.log) known; $(grep -v '^KNOWN-FINDING\|^WARNING' scratch/deep/$c.$seed.log | cut -c1-260 | head -6)"
done
