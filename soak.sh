#!/bin/bash
# soak: every registered check, thorough tier, one seed; three checks at a time.
#   ./soak.sh <seed> <budget seconds per check> [check ...]
cd "$(dirname "$0")"
seed=${1:-7}; budget=${2:-240}; shift 2
checks="$@"
[ -z "$checks" ] && checks=$(/venv/bin/python -c "import json; print(' '.join(x['property_id'] for x in json.load(open('MANIFEST.json'))['checks']))")
mkdir -p scratch/soak
run() {
  c=$1
  VERIF_SEED=$seed VERIF_BUDGET_S=$budget VERIF_PROCS=5 ./check $c --tier thorough > scratch/soak/$c.$seed.log 2>&1
  echo "== $c seed=$seed rc=$? $(grep -c '^KNOWN-FINDING' scratch/soak/$c.$seed.log) known; $(grep -v '^KNOWN-FINDING\|^WARNING' scratch/soak/$c.$seed.log | cut -c1-260 | head -6)"
}
n=0
for c in $checks; do
  run $c &
  n=$((n+1))
  if [ $((n % 3)) -eq 0 ]; then wait; fi
done
wait
