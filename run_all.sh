#!/bin/bash
# run every registered check (quick tier by default) and summarise
cd "$(dirname "$0")"
tier=${1:-quick}
for c in $(/venv/bin/python -c "import json; print(' '.join(x['property_id'] for x in json.load(open('MANIFEST.json'))['checks']))"); do
  s=$(date +%s)
  out=$(./check $c --tier $tier 2>&1); rc=$?
  e=$(( $(date +%s) - s ))
  echo "== $c rc=$rc ${e}s"
  echo "$out" | grep -v "^KNOWN-FINDING" | cut -c1-300 | head -8
  echo "$out" | grep -c "^KNOWN-FINDING" | sed 's/^/   known-finding lines: /'
done
