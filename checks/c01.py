"""C01 -- crash anywhere, restart with recovery: same outcome as an uninterrupted run.

Engine K: for a seeded program (a) reference run R0 under in-order exactly-once
delivery, (b) for crash points (k, before|after) over the worker's durable
commits: run to the crash, drop all process memory, let locks lapse, start a
fresh processor, run the recovery sweep, drain; compare with R0.  Thorough
tier sweeps *every* crash point of each program and adds a second crash placed
inside recovery/drain.
"""
from __future__ import annotations

from typing import Any

from sim.choices import Choices
from sim.engine_d import ledger_counts
from sim.oracles import HALT, V, always_on, check_ledger_unique, check_quiescent
from sim.programs import Program, gen_program

from .common import Exec, history_digest, knobs_from_dict, ref_unusable, sample_of, swarm_knobs, views_by_task

PROPERTY = "C01"

PROFILE = {
    "behaviours": {"ok": 10, "fail_terminal": 1, "fail_continue": 1, "poller": 2, "transient": 2, "exc": 1},
    "synth_p": 0.25, "loop_p": 0.2, "builder_tasks_p": 0.2, "joins": ["AND", "AND", "DISCRIMINATOR", "N_OF_M"],
    "or_split_p": 0.05, "max_stages": 6,
}


def _program(seed: int) -> tuple[Program, Any, Choices]:
    ch = Choices(seed)
    prog = gen_program(ch, PROFILE)
    knobs = swarm_knobs(ch)
    return prog, knobs, ch


from .common import racy_sets as _racy_sets


def racy_stages(prog: Program, fs0: dict[str, Any]) -> tuple[set[str], set[str]]:
    return _racy_sets(prog, fs0)


def reference(prog: Program, knobs: Any, seed: int) -> dict[str, Any]:
    ex = Exec(prog, knobs, Choices(seed, replay=[]))
    try:
        ex.submit()
        res = ex.run(max_steps=1500)
        fs, h = ex.finish()
        w = ex.world
        return {"fs": fs, "quiescent": res.quiescent, "steps": res.steps, "aborted": res.aborted,
                "counts": ledger_counts(w), "views": views_by_task(w.ledger),
                "commits": w.commit_count, "client_commits": ex.eng.client_commits,
                "always": always_on(h, prog, fs, res.quiescent), "sim_us": w.clock.us,
                "commit_ctx": [c.ctx for c in w.commits], "errors": list(res.handler_errors), "h": h}
    finally:
        ex.close()


def crash_exec(prog: Program, knobs: Any, seed: int, ref: dict[str, Any], points: list[list[Any]],
               second: list[Any] | None = None) -> dict[str, Any]:
    """Run with a crash at points[0] = [k, when] (k relative to the first worker commit); optional
    later crashes ``second`` = [offset, when] counted in commits after the restart."""
    ex = Exec(prog, knobs, Choices(seed, replay=[]))
    try:
        ex.submit()
        w = ex.world
        w.crash_at = (ex.eng.client_commits + int(points[0][0]), str(points[0][1]))
        # recipe after the restart: locks lapse first and then the sweep runs, or the sweep runs at once (what a worker
        # that comes back quickly does: the dead worker's locks are still held, delayed messages are not due yet) and the
        # locks lapse afterwards
        ex.lapse_first = bool(points[0][2]) if len(points[0]) > 2 else True  # type: ignore[attr-defined]
        pending = [list(p) for p in (second or [])]

        def on_crash(e: Exec) -> None:
            if pending:
                off, when = pending.pop(0)
                e.world.crash_at = (e.world.commit_count + 1 + int(off), str(when))

        budget = 10 * ref["steps"] + 80 + 3 * int(knobs.max_stage_wait_retries) * (2 + len(pending))
        res = ex.run(max_steps=budget, on_crash=on_crash)
        fs, h = ex.finish()
        vs = judge(prog, ref, ex, res, fs, h)
        from .common import state_hashes

        return {"state_hashes": state_hashes(h), "violations": vs, "digest": history_digest(h), "fired": len(w.crashes),
                "faults": dict(w.faults_fired), "probes": dict(w.probes), "sim_us": w.clock.us,
                "steps": res.steps}
    finally:
        ex.close()


def judge(prog: Program, ref: dict[str, Any], ex: Exec, res: Any, fs: dict[str, Any], h: Any) -> list[dict[str, Any]]:
    """One violation per failing execution: class = the most severe difference, signature = class + the
    semantic crash site(s), message = every difference found."""
    w = ex.world
    ncrash = len(w.crashes)
    fs0 = ref["fs"]
    where = "; ".join(f"crash {c['when']} commit {c['commit']} at [{c['site']}]" for c in w.crashes)
    site = "+".join(c["site"] for c in w.crashes)
    problems: list[tuple[str, str]] = []
    st_now = {k: v["status"] for k, v in fs["stages"].items()}
    if not res.quiescent:
        problems.append(("does-not-complete", f"drain did not quiesce ({res.aborted}); wf={fs['wf_status']} stages={st_now}"))
    else:
        status_racy, view_racy = racy_stages(prog, fs0)
        if fs["wf_status"] != fs0["wf_status"]:
            problems.append(("workflow-status-differs",
                             f"workflow ended {fs['wf_status']}, uninterrupted run ends {fs0['wf_status']}; stages={st_now}"))
        diff = {}
        for k in set(fs["stages"]) | set(fs0["stages"]):
            top = k.split("/")[0]
            if top in status_racy:
                continue
            a = (fs0["stages"].get(k) or {}).get("status")
            b = (fs["stages"].get(k) or {}).get("status")
            if a != b:
                diff[k] = (a, b)
        if diff:
            problems.append(("stage-status-differs", f"stage statuses (uninterrupted, crashed) differ: {diff}"))
        v1 = views_by_task(w.ledger)
        for t, vset in sorted(v1.items()):
            top = t.split("_")[1] if t.count("_") >= 2 else t
            if top in view_racy or top in status_racy:
                continue
            v0 = ref["views"].get(t)
            if v0 is not None and not vset <= v0:
                problems.append(("upstream-data-differs",
                                 f"task {t} saw upstream data {sorted(vset - v0)} which the uninterrupted "
                                 f"run never shows (it shows {sorted(v0)})"))
                break
        c1 = ledger_counts(w)
        from .common import count_racy

        # (stages that a jump may hit mid-run are interrupted or not, and run once per completed pass: their counts -
        # and their synthetic children's - are the schedule's choice, and a crash shifts the schedule)
        cr = count_racy(prog)
        extra = {t: c1.get(t, 0) - ref["counts"].get(t, 0) for t in set(c1) | set(ref["counts"])
                 if not (t.count("_") >= 2 and t.split("_")[1] in cr)}
        if not status_racy:
            over = {t: d for t, d in extra.items() if d > 0}
            under = {t: d for t, d in extra.items() if d < 0 and not _external(prog, t)}
            if sum(over.values()) > ncrash:
                problems.append(("more-than-inflight-reexecuted",
                                 f"extra task executions {over} exceed the {ncrash} in-flight step(s)"))
            if under:
                problems.append(("work-skipped", f"tasks executed fewer times than uninterrupted: {under}"))
        for x in check_ledger_unique(h, "C01", ex.crash_marks):
            problems.append(("step-executed-twice", x["msg"]))
        from sim.oracles import recovery_duplicates

        for x in recovery_duplicates(h)[:1]:
            problems.append(("more-than-inflight-reexecuted",
                             f"the recovery sweep queued {x['queued']} for task {x['task']} although a live {x['already']} message for it was "
                             f"already in the queue: a second chain of executions for one task"))
        # a dead-lettered message is judged only where the outcome is schedule independent: once a halting
        # failure cancels concurrently running branches, which late messages exist at all depends on the schedule
        if fs["queue"] or (fs["dlq"] and not status_racy):
            problems.append(("stranded-messages", f"queue={fs['queue']} dlq={fs['dlq']} after drain"))
        for q in check_quiescent(fs):
            if q["cls"] in ("stuck", "running-stage-in-finished-workflow"):
                problems.append(("half-started", q["msg"]))
    if not problems:
        return []
    order = ["does-not-complete", "half-started", "workflow-status-differs", "stage-status-differs",
             "upstream-data-differs", "work-skipped", "more-than-inflight-reexecuted", "step-executed-twice",
             "stranded-messages"]
    problems.sort(key=lambda p: order.index(p[0]))
    cls = problems[0][0]
    from sim.oracles import stale_applications

    st = stale_applications(h)
    stale = [f"{x['handler']}:{x['kind']}:{x['old']}->{x['new']}" for x in st[:1]]
    if st:
        x = st[0]
        problems = problems + [("diagnosis", f"a {x['handler']} message queued before stage {x['stage']} was re-armed changed its "
                                             f"{x['kind']} {x['old']}->{x['new']} afterwards")]
    msg = f"after {where}: " + " || ".join(f"{c}: {m}" for c, m in problems)
    return [V("C01", cls, msg, sig=f"C01:{cls}@{site}", site=site, sites=[c["site"] for c in w.crashes], stale=stale,
              classes=[c for c, _ in problems if c != "diagnosis"], recov=_recovery_actions(w, h),
              site_recov=[f"{c['site']}=>{r}" for c, r in zip(w.crashes, _recovery_actions(w, h))])]


def _recovery_actions(w: Any, h: Any) -> list[str]:
    """Per crash: what the recovery sweep queued *for the stage (or task) of the message that was in flight* -
    "StartTask", "StartStage", "RunTask", ... or "-" when it queued nothing for it.  Part of the violation record so
    that a listed finding can say how recovery reacted at that site (the claim->plan window is known to end in
    "recovery starts the first task" or, with a message still pending for that task, in "recovery queues nothing";
    recovery answering with yet another StartStage there is a different failure)."""
    import json as _json

    from sim.oracles import ctx_handler, ctx_msgid

    payload: dict[str, dict[str, Any]] = {}
    for r in h.audit:
        if r["kind"] == "q_ins":
            try:
                payload[r["row_id"]] = _json.loads((r["extra"] or {}).get("payload") or "{}")
            except Exception:
                payload[r["row_id"]] = {}
    out = []
    for c in w.crashes:
        mid = ctx_msgid(c.get("ctx") or "")
        if not mid:
            # the crash hit between the poll (lock) commit and the handler: the in-flight message is the row locked last
            # before the crash that was still in the queue
            limit = int(c["commit"]) - (1 if c.get("when") == "before" else 0)
            hi = max((cr.hi for cr in h.commits if cr.n <= limit), default=0)
            deleted = {r["row_id"] for r in h.audit if r["kind"] == "q_del" and r["seq"] <= hi}
            locks = [r for r in h.audit if r["kind"] == "q_lock" and r["seq"] <= hi and r["row_id"] not in deleted
                     and (r["extra"] or {}).get("a_new") != (r["extra"] or {}).get("a_old")]
            if locks:
                mid = locks[-1]["row_id"]
        p = payload.get(mid, {})
        sid, tid = p.get("stage_id"), p.get("task_id")
        acts = set()
        for r in h.audit:
            if r["kind"] != "q_ins" or ctx_handler(r["ctx"]) != "recovery":
                continue
            if str(r["ctx"] or "").split("|")[0] != str(int(c.get("inc", 0)) + 1):
                continue        # the sweep that answers this crash runs in the next incarnation
            q = payload.get(r["row_id"], {})
            if sid and q.get("stage_id") == sid and (not q.get("task_id") or not tid or q.get("task_id") == tid or True):
                acts.add(str(r["new"]))
        out.append("+".join(sorted(acts)) or "-")
    return out


def _external(prog: Program, task: str) -> bool:
    parts = task.split("_")
    if len(parts) < 3 or parts[1] not in prog.stages:
        return False
    try:
        t = prog.task_specs(parts[1])[int(parts[2])]
    except Exception:
        return False
    return t["b"] in ("transient", "poller")


def crash_points(ref: dict[str, Any]) -> list[tuple[int, str]]:
    n = ref["commits"] - ref["client_commits"]
    pts = []
    for k in range(1, n + 1):
        pts.append((k, "before"))
        pts.append((k, "after"))
    return pts


def run_one(seed: int, tier: str) -> dict[str, Any]:
    prog, knobs, ch = _program(seed)
    out: dict[str, Any] = {"violations": [], "execs": 0, "digests": {}, "stats": {}, "faults": {}, "probes": {},
                           "samples": [], "sim_us": 0, "inconclusive": 0}
    ref = reference(prog, knobs, seed)
    out["execs"] += 1
    out["sim_us"] += ref["sim_us"] - 1_893_456_000_000_000
    if ref_unusable(ref, prog):
        out["inconclusive"] += 1
        out["stats"]["reference_not_clean"] = 1
        return out
    pts = crash_points(ref)
    kd = knobs.to_dict()
    if tier != "thorough":
        # stratified sample: first/last few, every commit made by StartStage/CompleteStage/JumpToStage, random rest
        n = len(pts)
        chosen = set(range(min(6, n))) | set(range(max(0, n - 6), n))
        for i, (k, when) in enumerate(pts):
            ctx = ref["commit_ctx"][ref["client_commits"] + k - 1]
            if any(x in ctx for x in ("|StartStage|", "|JumpToStage|")) and ch.flip("pt.struct", 0.5):
                chosen.add(i)
        for _ in range(10):
            chosen.add(ch.pick("pt.rand", n))
        if ref["steps"] > 300:      # very long reference runs (wait-retry loops): keep the quick tier quick
            chosen = set(sorted(chosen)[::3])
        pts = [pts[i] for i in sorted(chosen)]
    import time as _t

    from sim import seams as _seams

    _dl = float(__import__("os").environ.get("VERIF_DEADLINE", "0") or 0)
    _lim = float(__import__("os").environ.get("VERIF_RUN_TIMEOUT_S", "600"))
    for (k, when) in pts:
        if _dl and _seams.REAL.time() > _dl:
            out["stats"]["sweeps_cut_by_deadline"] = 1
            break
        if _dl:
            # the driver's watchdog bounds one hung execution; a thorough sweep is hundreds of executions of one program
            # and may legitimately take longer than that limit: re-arm it per execution (the worker cancels it afterwards)
            __import__("faulthandler").dump_traceback_later(_lim, exit=True)
        second = None
        if tier == "thorough" and ch.flip("second", 0.25):
            second = [[ch.pick("second.off", 12), ch.choice("second.when", ["before", "after"])]]
            if ch.flip("third", 0.2):
                second.append([ch.pick("third.off", 10), ch.choice("third.when", ["before", "after"])])
        lapse_first = 0 if ch.flip("lapse.later", 0.4) else 1
        r = crash_exec(prog, knobs, seed, ref, [[k, when, lapse_first]], second)
        out["execs"] += 1
        out["sim_us"] += r["sim_us"] - 1_893_456_000_000_000
        out["digests"][r["digest"]] = r["fired"] > 0
        out.setdefault("state_hashes", set()).update(r.get("state_hashes") or ())
        for a, b in r["faults"].items():
            out["faults"][a] = out["faults"].get(a, 0) + b
        out["stats"]["crash_points"] = out["stats"].get("crash_points", 0) + 1
        if second:
            out["stats"]["multi_crash_execs"] = out["stats"].get("multi_crash_execs", 0) + 1
        for v in r["violations"]:
            v["replay"] = {"check": "C01", "seed": seed, "program": prog.spec, "knobs": kd,
                           "points": [[k, when, lapse_first]], "second": second, "trace": []}
            out["violations"].append(v)
        if len(out["violations"]) >= 6:
            break
    if not out["samples"]:
        out["samples"].append(sample_of(prog, ch.trace, {"crash_points_swept": len(pts),
                                                          "worker_commits": ref["commits"] - ref["client_commits"]}))
    for f in prog.features():
        out["stats"]["feature:" + f] = 1
    return out


def replay_one(rep: dict[str, Any]) -> list[dict[str, Any]]:
    prog = Program(rep["program"])
    knobs = knobs_from_dict(rep["knobs"])
    ref = reference(prog, knobs, rep["seed"])
    r = crash_exec(prog, knobs, rep["seed"], ref, rep["points"], rep.get("second"))
    return r["violations"]
