"""C08 -- queue: at-least-once delivery, one holder at a time, no message ever lost.

Queue machine under engine W: 1-3 actors execute seeded operation sequences against the real SqliteQueue
(push with/without delay, push inside a store transaction, poll, ack, reschedule, extend_lock, advance the
clock, a failing handler through the real ``QueueProcessor.process_one``, the DLQ sweep, move_to_dlq,
replay_dlq), interleaved at SQL statement level, with crash points and injected I/O errors inside the
operations and with the queue-level / message-level knobs (lock_duration, max_attempts) varied.
Oracles: (exclusivity) a claim is durable only on a row whose previous lock was NULL or lapsed; (conservation)
from the insert/delete trigger audit every pushed row is in exactly one place and a DLQ move is one commit;
(fidelity) what poll / replay returns equals what was pushed; (at-least-once) after the operations stop a
drainer must receive every message that was neither acknowledged nor dead-lettered within a bounded number of
poll/advance steps -- never neither.
"""
from __future__ import annotations

import json
from datetime import timedelta
from typing import Any

from sim.choices import Choices
from sim.oracles import History, check_message_conservation

from .common import new_outcome, swarm_knobs
from .dflow import one_violation

OPS = ["push", "push", "push_delay", "push_txn", "poll", "poll", "ack", "ack", "reschedule", "extend", "advance",
       "fail_handler", "check_dlq", "move_dlq", "replay_dlq"]


def q_machine(ch: Choices) -> dict[str, Any]:
    from sim import seams
    from sim.engine_d import _iso_us
    from sim.engine_w import Scheduler
    from sim.seams import SimCrash
    from sim.world import World

    from stabilize.queue.messages import CompleteWorkflow, StartStage, StartTask

    knobs = swarm_knobs(ch)
    knobs.lock_duration_s = ch.choice("q.lock", [2.0, 5.0, 60.0])
    knobs.max_attempts = ch.choice("q.maxatt", [10, 3, 10])
    na = 1 + ch.pick("q.actors", 3)
    nops = 4 + ch.pick("q.nops", 10)
    plans = [[ch.choice("q.op", OPS) for _ in range(nops)] for _ in range(na)]
    if ch.flip("q.poison", 0.15):
        # a message that is delivered again and again without ever being acknowledged
        plans[0] = [ch.choice("q.poison.push", ["push", "push_txn"])] + ["poll", "advance"] * (3 + ch.pick("q.poison.n", 9))
    if ch.flip("q.dlqrace", 0.12):
        # one message driven to its attempt limit; its last holder acknowledges (or gives it back) at the moment two
        # other actors run the dead-letter sweep: ack / move / move race on one row at statement level
        knobs.max_attempts = 3
        last = ch.choice("q.dlqrace.last", ["ack", "move_dlq", "reschedule", "ack"])
        # "until": all actors resume at the same simulated instant, so the scheduler interleaves their next
        # operations statement by statement
        plans = [[ch.choice("q.dlqrace.push", ["push", "push_txn"]), "poll", "advance", "poll", "advance", "poll", "until", last],
                 ["until", "check_dlq", "nap", "check_dlq"],
                 ["until", "check_dlq", "nap", "check_dlq", "replay_dlq"]][:2 + ch.pick("q.dlqrace.n", 2)]
    crash_k = ch.pick("q.crash", 25) if ch.flip("q.crash?", 0.3) else None
    io_commit = ch.pick("q.io", 20) if ch.flip("q.io?", 0.15) else None
    io_kind = ch.choice("q.iokind", ["disk I/O error", "database or disk is full", "database is locked"])
    w = World(ch, knobs, None)
    pushed: dict[str, dict[str, Any]] = {}   # tag -> {type, fields}
    delivered: list[dict[str, Any]] = []
    fidelity: list[str] = []
    notes: list[str] = []
    seq = [0]
    sched = None
    try:
        w.boot()
        base = w.commit_count
        t_rendezvous = w.clock.us + int((2 * (knobs.lock_duration_s + 1.5) + 1.0) * 1e6)
        if crash_k is not None:
            w.crash_at = (base + 1 + crash_k, ch.choice("q.crashwhen", ["before", "after"]))
        if io_commit is not None:
            w.io_fault_commits[base + 1 + io_commit] = io_kind

        def new_msg() -> Any:
            seq[0] += 1
            tag = f"m{seq[0]}"
            kind = seq[0] % 3
            if kind == 0:
                m = StartStage(execution_id=tag, stage_id="s" + tag, retry_count=seq[0])
            elif kind == 1:
                m = StartTask(execution_id=tag, stage_id="s" + tag, task_id="t" + tag)
            else:
                m = CompleteWorkflow(execution_id=tag, retry_count=seq[0])
            pushed[tag] = {"type": type(m).__name__, "retry_count": getattr(m, "retry_count", None),
                           "stage_id": getattr(m, "stage_id", None), "task_id": getattr(m, "task_id", None)}
            return m

        def check_fidelity(m: Any, where: str) -> None:
            tag = getattr(m, "execution_id", "")
            if type(m).__name__.startswith("Invalid"):
                return   # diagnostic marker queued by the engine's own handlers, not by an actor
            p = pushed.get(tag)
            if p is None:
                fidelity.append(f"{where}: message {tag!r} was never pushed")
                return
            got = {"type": type(m).__name__, "retry_count": getattr(m, "retry_count", None),
                   "stage_id": getattr(m, "stage_id", None), "task_id": getattr(m, "task_id", None)}
            if got != p:
                fidelity.append(f"{where}: delivered {got} but pushed {p}")

        def mk(ai: int, ops: list[str]) -> Any:
            def body(wk: Any) -> None:
                q = w.queue
                held: list[Any] = []
                for op in ops:
                    try:
                        if op == "push":
                            q.push(new_msg())
                        elif op == "push_delay":
                            q.push(new_msg(), timedelta(seconds=3))
                        elif op == "push_txn":
                            with w.store.transaction(q) as txn:
                                txn.push_message(new_msg())
                        elif op == "poll":
                            m = q.poll_one()
                            if m is not None:
                                check_fidelity(m, "poll")
                                held.append(m)
                                delivered.append({"tag": m.execution_id, "id": m.message_id, "actor": ai, "t_us": w.clock.us})
                        elif op == "ack" and held:
                            q.ack(held.pop(0))
                        elif op == "reschedule" and held:
                            q.reschedule(held.pop(0), timedelta(seconds=1))
                        elif op == "extend" and held:
                            q.extend_lock(held[0])
                        elif op == "until":
                            w.sched.sleep(max(0.0, (t_rendezvous - w.clock.us) / 1e6))
                        elif op == "nap":
                            # a few simulated milliseconds: lines actors up that slept the same nominal time
                            w.sched.sleep(ch.choice("q.nap", [0.0004, 0.0015, 0.003, 0.006, 0.012]))
                        elif op == "advance":
                            w.sched.sleep(knobs.lock_duration_s + 1.5 if (seq[0] % 2 or ops[1:2] == ["poll"]) else 1.2)
                        elif op == "fail_handler":
                            try:
                                w.processor.process_one()   # no workflow exists for these ids: handlers fail or no-op
                            except SimCrash:
                                raise
                            except Exception:
                                pass
                        elif op == "check_dlq":
                            w.processor._check_dlq()
                        elif op == "move_dlq" and held:
                            q.move_to_dlq(held.pop(0).message_id, "sim")
                        elif op == "replay_dlq":
                            rows = q.list_dlq(limit=5)
                            if rows:
                                q.replay_dlq(rows[0]["id"])
                    except SimCrash:
                        raise
                    except Exception as e:
                        notes.append(f"a{ai} {op}: {type(e).__name__}: {str(e)[:80]}")
                        w.probe("op_error")

            return body

        sched = Scheduler(w, strategy=ch.choice("q.strategy", ["random", "pct", "random"]), pct_depth=1 + ch.pick("q.depth", 3),
                          step_cap=40000)
        for ai, ops in enumerate(plans):
            sched.add(mk(ai, ops), name=f"actor{ai}")
        sched.start()
        end = sched.run()
        errs = sched.errors()
        stats = {"w_steps": sched.steps, "preemptions": sched.preemptions, "lock_waits": sched.lock_waits}
        if end == "crash" or w.crashing:
            sched.crash_all()
            w.crash_restart()
            stats["crashed"] = 1
        else:
            sched.stop()
        sched = None
        w.io_fault_commits.clear()
        w.crash_at = None
        # ---- drain phase (faults stopped): at-least-once
        q = w.queue
        limit = q.max_attempts
        got_in_drain: list[str] = []
        stuck: list[dict[str, Any]] = []
        for _ in range(400):
            m = q.poll_one()
            if m is not None:
                check_fidelity(m, "drain-poll")
                got_in_drain.append(m.execution_id)
                q.ack(m)
                continue
            rows = w.queue_rows()
            if not rows:
                break
            w.processor._check_dlq()
            rows = w.queue_rows()
            if not rows:
                break
            pend = [r for r in rows if r["attempts"] < limit]
            if not pend:
                stuck = rows
                break
            nxt = min(max(_iso_us(r["deliver_at"]), (_iso_us(r["locked_until"]) // 1_000_000 + 1) * 1_000_000 if r["locked_until"] else 0)
                      for r in pend)
            w.clock.set_at_least(max(nxt, w.clock.us + 1_000_000))
        else:
            stuck = w.queue_rows()
        h = History(w, None)
        fsq = {r["id"] for r in w.queue_rows()}
        dlq = w.dlq_rows()
        return {"end": end, "errors": errs, "stats": stats, "h": h, "fidelity": fidelity, "stuck": stuck, "notes": notes,
                "queue_ids": fsq, "dlq": dlq, "pushed": pushed, "plans": plans, "limit": limit,
                "knobs": {"lock": knobs.lock_duration_s, "max_attempts": knobs.max_attempts},
                "faults": dict(w.faults_fired), "probes": dict(w.probes), "sim_us": w.clock.us - seams.EPOCH_US,
                "delivered": delivered, "drained": got_in_drain, "commits": [(c.n, c.t_us, c.lo, c.hi) for c in w.commits]}
    finally:
        if sched is not None:
            try:
                sched.stop()
            except Exception:
                pass
        w.close()


def judge(r: dict[str, Any]) -> list[dict[str, Any]]:
    from sim.engine_d import _iso_us

    if r["errors"]:
        raise RuntimeError("actor crashed: " + r["errors"][0])
    h = r["h"]
    problems: list[tuple[str, str, str]] = []
    # exclusivity
    for a in h.audit:
        if a["kind"] != "q_lock":
            continue
        e = a["extra"] or {}
        if e.get("a_new") is not None and e.get("a_old") is not None and e["a_new"] == e["a_old"] + 1 and a["old"]:
            ci = h.commit_of(a["seq"])
            if ci is None:
                continue
            t_commit = h.commits[ci].t_us
            if _iso_us(a["old"]) // 1_000_000 >= t_commit // 1_000_000:
                problems.append(("claimed-while-locked", f"queue row {a['row_id']} was claimed although its lock ({a['old']}) had not lapsed", "exclusive"))
                break
    # conservation
    dlq_orig = {d["original_id"] for d in r["dlq"]}
    for v in check_message_conservation(h, r["queue_ids"], dlq_orig):
        problems.append((v["cls"], v["msg"], v["cls"]))
    # fidelity of delivered and replayed messages
    for f in r["fidelity"][:2]:
        problems.append(("payload-changed", f, "fidelity"))
    ins = {a["row_id"]: a for a in h.audit if a["kind"] == "q_ins"}
    for a in h.audit:
        if a["kind"] == "dlq_del":
            pay = (a["extra"] or {}).get("payload")
            ci = h.commit_of(a["seq"])
            same = [x for x in h.audit if x["kind"] == "q_ins" and h.commit_of(x["seq"]) == ci and ci is not None]
            if same and not any((x["extra"] or {}).get("payload") == pay and x["new"] == a["old"] for x in same):
                problems.append(("replay-changed-message", f"DLQ entry {a['row_id']} replayed with a different type/payload", "replay-fidelity"))
            if ci is not None and not same:
                clear = [x for x in h.audit if x["kind"] == "dlq_del" and h.commit_of(x["seq"]) == ci]
                if len(clear) == 1:
                    problems.append(("replay-lost-message", f"DLQ entry {a['row_id']} was deleted without a queue insert in the same commit", "replay-lost"))
    _ = ins
    # at-least-once
    if r["stuck"]:
        desc = [{"id": s["id"], "attempts": s["attempts"], "row_max": s["max_attempts"], "locked_until": s["locked_until"]} for s in r["stuck"][:4]]
        kind = "invisible-not-swept" if all(s["attempts"] >= r["limit"] for s in r["stuck"]) else "undelivered"
        problems.append(("message-neither-delivered-nor-dead-lettered",
                         f"after faults stopped {len(r['stuck'])} queued row(s) were never delivered and not dead-lettered "
                         f"(queue max_attempts={r['limit']}): {desc}", "stuck:" + kind))
    return one_violation("C08", problems)


def run_one(seed: int, tier: str) -> dict[str, Any]:
    out = new_outcome()
    ch = Choices(seed)
    r = q_machine(ch)
    out["execs"] += 1
    out["sim_us"] += r["sim_us"]
    nt = len(r["delivered"]) > 0 and len(r["pushed"]) > 0
    dg = json.dumps([[a["kind"], a["new"], a["old"] is not None] for a in r["h"].audit if a["kind"].startswith(("q_", "dlq_"))])
    import hashlib

    out["digests"][hashlib.sha1(dg.encode()).hexdigest()[:16]] = nt
    for k in ("faults", "probes"):
        for a, b in r[k].items():
            out[k][a] = out[k].get(a, 0) + b
    for a, b in r["stats"].items():
        out["stats"][a] = out["stats"].get(a, 0) + b
    out["stats"]["pushed"] = len(r["pushed"])
    out["stats"]["delivered_in_ops"] = len(r["delivered"])
    out["stats"]["delivered_in_drain"] = len(r["drained"])
    out["stats"]["dlq_rows"] = len(r["dlq"])
    out["samples"].append({"plans": r["plans"], "knobs": r["knobs"], "notes": r["notes"][:5]})
    vs = judge(r)
    for v in vs:
        v["replay"] = {"check": "C08", "seed": seed, "trace": ch.trace}
    out["violations"] = vs
    return out


def replay_one(rep: dict[str, Any]) -> list[dict[str, Any]]:
    return judge(q_machine(Choices(rep["seed"], replay=rep["trace"])))
