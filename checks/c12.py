"""C12 -- replaying the event log reproduces the stored state.

Engine D, crash-free, event sourcing configured with ``SqliteEventStore`` in the same database.  At
quiescence of each seeded (program x delivery schedule) run:
(1) ``EventReplayer.rebuild_workflow_state`` vs the state store: workflow status, and the status of every
    stage / task whose last durable status change was made by a regular start / complete / fail / skip /
    cancel handler (entities last touched by JumpToStage / RestartStage are outside the log; SKIPPED and
    CANCELED *tasks* get no event by design);
(2) for sampled sequence numbers s: ``rebuild(as_of_sequence=s)`` equals a full rebuild over the log with
    the events after s deleted (done inside a SAVEPOINT that is rolled back -- no re-implementation of the fold);
(3) for sampled snapshot positions p: snapshot of ``rebuild(as_of=p)`` at p, then rebuild through a replayer
    with the snapshot store equals the full replay in statuses, context, stages and tasks.
"""
from __future__ import annotations

import json
from typing import Any

from sim.choices import Choices
from sim.oracles import ctx_handler

from .common import Exec
from .dflow import DCheck, one_violation

PROFILE = {
    "max_stages": 6, "joins": ["AND", "AND", "DISCRIMINATOR", "N_OF_M", "OR"],
    "behaviours": {"ok": 10, "fail_terminal": 2, "fail_continue": 2, "poller": 2, "transient": 2, "exc": 1},
    "synth_p": 0.2, "loop_p": 0.15, "or_split_p": 0.15, "cof_p": 0.2, "disabled_p": 0.08,
}
REGULAR = {"StartStage", "CompleteStage", "SkipStage", "CancelStage", "StartTask", "CompleteTask", "RunTask",
           "StartWorkflow", "CompleteWorkflow", "CancelWorkflow", "ContinueParentStage"}


def post(ex: Exec, fs: dict[str, Any], ch: Choices) -> dict[str, Any]:
    from stabilize.events.replay import EventReplayer
    from stabilize.events.snapshots import SnapshotStore

    w = ex.world
    out: dict[str, Any] = {"problems": []}
    if w.event_store is None:
        return out
    es = w.event_store
    rep = EventReplayer(es)
    with w.as_client("replay"):
        full = rep.rebuild_workflow_state(ex.wf_id)
        seqs = [r["sequence"] for r in w.hquery("SELECT sequence FROM events WHERE workflow_id = ? ORDER BY sequence", (ex.wf_id,))]
        out["full"] = full
        out["n_events"] = len(seqs)
        # (2) prefixes
        conn = es._get_connection()
        picks = sorted({seqs[ch.pick("c12.prefix", len(seqs))] for _ in range(min(5, len(seqs)))}) if seqs else []
        for s in picks:
            a = rep.rebuild_workflow_state(ex.wf_id, as_of_sequence=s)
            conn.raw_execute("SAVEPOINT c12")
            try:
                conn.raw_execute("DELETE FROM events WHERE sequence > ?", (s,))
                b = rep.rebuild_workflow_state(ex.wf_id)
            finally:
                conn.raw_execute("ROLLBACK TO c12")
                conn.raw_execute("RELEASE c12")
            if json.dumps(a, sort_keys=True, default=str) != json.dumps(b, sort_keys=True, default=str):
                out["problems"].append(("prefix-mismatch", f"rebuild(as_of_sequence={s}) differs from replaying exactly the events up to {s}", "prefix"))
                break
        out["prefixes_checked"] = len(picks)
        # (3) snapshots
        snaps = SnapshotStore(es)
        picks = sorted({seqs[ch.pick("c12.snap", len(seqs))] for _ in range(min(3, len(seqs)))}) if seqs else []
        for p in picks:
            st = rep.rebuild_workflow_state(ex.wf_id, as_of_sequence=p)
            snaps.create_workflow_snapshot(st, ex.wf_id, version=1, sequence=p)
            rep2 = EventReplayer(es, snaps)
            viaSnap = rep2.rebuild_workflow_state(ex.wf_id)
            conn.raw_execute("DELETE FROM snapshots")
            conn.raw_commit()
            for part in ("status", "context", "stages", "tasks"):
                if json.dumps(viaSnap.get(part), sort_keys=True, default=str) != json.dumps(full.get(part), sort_keys=True, default=str):
                    out["problems"].append(("snapshot-mismatch", f"snapshot at sequence {p} + later events differs from the full replay in '{part}': "
                                            f"{json.dumps(viaSnap.get(part), default=str)[:200]} vs {json.dumps(full.get(part), default=str)[:200]}", "snapshot:" + part))
                    break
        out["snapshots_checked"] = len(picks)
    return out


def judge(prog: Any, ref: Any, run: dict[str, Any], info: dict[str, Any]) -> list[dict[str, Any]]:
    h = run["h"]
    p = run.get("post") or {}
    problems: list[tuple[str, str, str]] = [tuple(x) for x in p.get("problems", [])]  # type: ignore[misc]
    full = p.get("full")
    if full is not None and run["quiescent"]:
        fs = run["fs"]
        if full.get("status") != fs["wf_status"] and fs["wf_status"] not in ("NOT_STARTED",):
            problems.append(("workflow-status-mismatch", f"replay says workflow {full.get('status')}, the store says {fs['wf_status']}",
                             f"wf:{fs['wf_status']}-replayed-{full.get('status')}"))
        last_by: dict[str, tuple[str, str]] = {}
        for r in h.audit:
            if r["kind"] in ("stage", "task") and r["old"] != r["new"]:
                last_by[r["row_id"]] = (ctx_handler(r["ctx"]), r["new"])
        by_id = {v["id"]: (k, v) for k, v in fs["stages"].items()}
        for sid, (hd, new) in last_by.items():
            if hd not in REGULAR:
                continue
            if (hd == "StartStage" and new != "RUNNING") or hd == "ContinueParentStage":
                # (ContinueParentStage changes a stage's status only on its own give-up path: "exceeded max retries
                # waiting for child stages" -> TERMINAL)
                # StartStage's give-up path ("exceeded max retries waiting for upstream stages" -> TERMINAL) is a
                # time-out, not one of the regular start / complete / fail / skip / cancel steps the property names
                continue
            if sid in by_id:
                k, v = by_id[sid]
                got = (full.get("stages") or {}).get(sid, {}).get("status")
                if v["status"] in ("NOT_STARTED",):
                    continue
                if got != v["status"]:
                    problems.append(("stage-status-mismatch", f"stage {k}: store {v['status']} (last changed by {hd}), replay {got}",
                                     f"stage:{v['status']}-replayed-{got}:{hd}"))
            elif sid in h.task_info:
                ti = h.task_info[sid]
                stored = new
                if stored in ("SKIPPED", "CANCELED", "NOT_STARTED", "SUSPENDED", "REDIRECT", "PAUSED"):
                    continue
                got = (full.get("tasks") or {}).get(sid, {}).get("status")
                if got != stored:
                    problems.append(("task-status-mismatch", f"task {ti.get('name')}: store {stored} (last changed by {hd}), replay {got}",
                                     f"task:{stored}-replayed-{got}:{hd}"))
    # one violation per distinct signature
    seen: set[str] = set()
    out: list[dict[str, Any]] = []
    for pr in problems:
        if pr[2] in seen:
            continue
        seen.add(pr[2])
        out += one_violation("C12", [pr], h)
    return out


class C12Check(DCheck):
    def flow(self, ch: Choices, tier: str):  # type: ignore[no-untyped-def]
        from sim.programs import gen_program

        from .common import run_exec, swarm_knobs, swarm_opts

        prog = gen_program(ch, self.profile)
        knobs = swarm_knobs(ch, event_sourcing=True)
        opts = swarm_opts(ch)
        info: dict[str, Any] = {"opts": dict(opts.__dict__), "knobs": knobs.to_dict()}
        # a quarter of the runs: an operator cancel at a seeded delivery step (the "cancel" step of the property) - the
        # request may be overtaken by a failure that is already on its way, whatever ends the workflow is what the log
        # must say
        st = None
        cancel = ch.flip("c12.cancel", 0.25)
        if cancel:
            at = ch.pick("c12.cancel.at", 50)
            # ... or right when a terminally failing task has run and its failure is still travelling through the queue
            on_fail = bool(ch.pick("c12.cancel.onfail", 2))

            def st(ex: Any) -> None:
                n = [0]
                fired = [False]

                def between(eng: Any) -> None:
                    hit = n[0] == at
                    if on_fail:
                        hit = (not fired[0]) and any(e["result"] in ("fail_terminal", "exc") for e in ex.world.ledger)
                    if hit:
                        fired[0] = True
                        with ex.world.as_client("client-cancel"):
                            wf = ex.world.store.retrieve(ex.wf_id)
                            ex.world.orchestrator.cancel(wf, "sim", "c12")
                        ex.world.fault("cancel_request")
                    n[0] += 1

                ex.eng.between = between

        run = run_exec(prog, knobs, ch, opts, setup=st, max_steps=1500 + 3 * knobs.max_stage_wait_retries,
                       cancel_requested=cancel, post=lambda ex, fs: post(ex, fs, ch))
        info["stats"] = {"events": (run.get("post") or {}).get("n_events", 0),
                         "prefixes_checked": (run.get("post") or {}).get("prefixes_checked", 0),
                         "snapshots_checked": (run.get("post") or {}).get("snapshots_checked", 0)}
        return prog, None, run, info


CHECK = C12Check("C12", PROFILE, judge, need_ref=False,
                 nontrivial=lambda run, info: (run.get("post") or {}).get("n_events", 0) > 3)
run_one = CHECK.run_one
replay_one = CHECK.replay_one
