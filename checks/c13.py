"""C13 -- events and the state they describe commit together.

Event sourcing configured with the SQLite event store in the *same* database.
(K) crash-point sweep as in C01 (every commit in thorough, a stratified sample in quick): after the crash,
    and again after restart + recovery + drain, the durable events are compared with the durable state;
(F) injected failures inside completion transactions: an I/O error on the first statement (or the commit)
    that follows the n-th ``INSERT INTO events``;
(W) two or three interleaved workers so that completion transactions lose optimistic-lock races.
Oracle over the trigger audit (rows of rolled-back transactions never appear): every completion event
recorded by CompleteTask / CompleteStage lies in the same commit as the status change it describes and vice
versa (SKIPPED tasks excepted, by design); the synchronous bus subscriber only ever receives events that are
durable at that moment; ``events.sequence`` is unique and increasing in commit order.
"""
from __future__ import annotations

import json
from typing import Any

from sim.choices import Choices
from sim.oracles import COMPLETE, ctx_handler

from .common import Exec, absorb, new_outcome, run_exec, run_w, sample_of, swarm_knobs, swarm_opts
from .dflow import one_violation

PROFILE = {
    "max_stages": 5, "joins": ["AND", "AND", "DISCRIMINATOR", "N_OF_M"],
    "behaviours": {"ok": 10, "fail_terminal": 2, "fail_continue": 2, "poller": 1, "transient": 1, "exc": 1},
    "synth_p": 0.15, "loop_p": 0.1, "or_split_p": 0.1, "cof_p": 0.2,
}
COMPLETION_EVENTS = {"task.completed": "task", "task.failed": "task", "stage.completed": "stage", "stage.failed": "stage",
                     "stage.skipped": "stage"}


def judge_history(run: dict[str, Any]) -> list[dict[str, Any]]:
    h = run["h"]
    problems: list[tuple[str, str, str]] = []
    evs = [r for r in h.audit if r["kind"] == "ev_ins"]
    # sequence numbers unique and increasing in commit order
    last = 0
    for r in evs:
        s = int(r["row_id"])
        if s <= last:
            problems.append(("sequence-not-increasing", f"event sequence {s} after {last}", "sequence"))
            break
        last = s
    # completion events <-> status changes, same commit
    changes: dict[tuple[str, int | None], list[dict[str, Any]]] = {}
    for r in h.audit:
        if r["kind"] in ("stage", "task") and r["old"] != r["new"] and r["new"] in COMPLETE:
            changes.setdefault((r["row_id"], h.commit_of(r["seq"])), []).append(r)
    ev_by: dict[tuple[str, int | None], list[dict[str, Any]]] = {}
    for r in evs:
        e = r["extra"] or {}
        typ = r["new"]
        src = e.get("source") or ""
        if typ in COMPLETION_EVENTS and src in ("CompleteTaskHandler", "CompleteStageHandler"):
            ci = h.commit_of(r["seq"])
            ev_by.setdefault((e.get("entity_id"), ci), []).append(r)
            if (e.get("entity_id"), ci) not in changes:
                problems.append(("event-without-state", f"{typ} event (sequence {r['row_id']}, {src}) is durable but the completion of "
                                 f"{e.get('entity_id')} is not in the same commit", "phantom-event:" + typ))
    for (eid, ci), rows in changes.items():
        r = rows[0]
        hd = ctx_handler(r["ctx"])
        if hd not in ("CompleteTask", "CompleteStage"):
            continue
        if r["kind"] == "task" and r["new"] in ("SKIPPED", "REDIRECT"):
            continue
        if (eid, ci) not in ev_by:
            ent = h.key_of_stage(eid) if r["kind"] == "stage" else (h.task_info.get(eid) or {}).get("name", eid)
            problems.append(("state-without-event", f"{r['kind']} {ent} became {r['new']} in {hd}'s commit without its completion event",
                             f"missing-event:{r['kind']}:{r['new']}"))
    # bus: only durable events
    for b in run.get("bus_log") or []:
        if not b.get("durable"):
            problems.append(("published-before-durable", f"subscriber received {b['type']} (sequence {b['seq']}) that was not durable then",
                             "bus:" + b["type"]))
            break
    out: list[dict[str, Any]] = []
    seen: set[str] = set()
    for p in problems:
        if p[2] not in seen:
            seen.add(p[2])
            out += one_violation("C13", [p], h)
    return out


def _flow(ch: Choices, tier: str) -> tuple[Any, dict[str, Any], dict[str, Any]]:
    from sim.programs import gen_program

    prog = gen_program(ch, PROFILE)
    mode = ch.choice("c13.mode", ["crash", "crash", "fault", "fault", "w"])
    knobs = swarm_knobs(ch, event_sourcing=True)
    info: dict[str, Any] = {"mode": mode}
    if mode == "w":
        knobs.peer_emulation = bool(ch.pick("k.peer", 2))
        run = run_w(prog, knobs, ch, nworkers=2 + ch.pick("w.n", 2), strategy=ch.choice("w.strategy", ["random", "pct", "stall"]),
                    pct_depth=1 + ch.pick("w.depth", 3))
        run["bus_log"] = run.get("bus_log") or []
        return prog, run, info
    opts = swarm_opts(ch)

    def st(ex: Exec) -> None:
        w = ex.world
        if mode == "crash":
            w.crash_at = (ex.eng.client_commits + 1 + ch.pick("crash.k", 140), ch.choice("crash.when", ["before", "after"]))
            if ch.flip("crash.second", 0.3):
                left = [1]

                def again(e: Exec) -> None:
                    if left[0]:
                        left[0] = 0
                        e.world.crash_at = (e.world.commit_count + 1 + ch.pick("crash.k2", 25), ch.choice("crash.when2", ["before", "after"]))

                ex.on_crash_hook = again  # type: ignore[attr-defined]
        else:
            w.fault_after_event_n = 1 + ch.pick("fault.n", 30)

    run = run_exec(prog, knobs, ch, opts, setup=st, max_steps=2500)
    return prog, run, info


def run_one(seed: int, tier: str) -> dict[str, Any]:
    out = new_outcome()
    n = 4 if tier == "thorough" else 1
    for i in range(n):
        ch = Choices(seed + i)
        prog, run, info = _flow(ch, tier)
        if run.get("errors") and info["mode"] == "w":
            raise RuntimeError("worker error: " + str(run["errors"][0]))
        fired = run["faults"].get("crash", 0) + run["faults"].get("io_after_event_append", 0) + (1 if info["mode"] == "w" else 0)
        absorb(out, run, fired > 0)
        out["stats"]["mode_" + info["mode"]] = out["stats"].get("mode_" + info["mode"], 0) + 1
        out["stats"]["events_durable"] = out["stats"].get("events_durable", 0) + sum(1 for r in run["h"].audit if r["kind"] == "ev_ins")
        out["stats"]["bus_deliveries"] = out["stats"].get("bus_deliveries", 0) + len(run.get("bus_log") or [])
        vs = judge_history(run)
        for v in vs:
            v["replay"] = {"check": "C13", "seed": seed + i, "trace": ch.trace}
        out["violations"] += vs
        if not out["samples"]:
            out["samples"].append(sample_of(prog, ch.trace, {"info": info}))
    return out


def replay_one(rep: dict[str, Any]) -> list[dict[str, Any]]:
    ch = Choices(rep["seed"], replay=rep["trace"])
    prog, run, info = _flow(ch, "quick")
    return judge_history(run)


_ = json
