"""C17 -- after a cancel is accepted no further task starts and the workflow ends.

Engine D: ``Orchestrator.cancel`` is called before a seeded delivery step (every position is reachable;
thorough draws many) and the CancelWorkflow message itself takes part in the seeded delivery order, so it
can be overtaken.  Oracle: let c be the audit position at which CancelWorkflow's processed mark became
durable; no ledger entry of the workflow is recorded after c; at quiescence every stage that was not
complete at c is CANCELED (synthetic stages included) and the workflow is complete -- CANCELED unless every
top-level stage had already completed at c.
"""
from __future__ import annotations

from typing import Any

from sim.choices import Choices
from sim.oracles import COMPLETE, ctx_handler

from .common import Exec
from .dflow import DCheck, one_violation

PROFILE = {
    "max_stages": 6, "joins": ["AND", "AND", "DISCRIMINATOR", "N_OF_M"],
    "behaviours": {"ok": 10, "fail_terminal": 1, "fail_continue": 1, "poller": 3, "transient": 2, "exc": 0},
    "synth_p": 0.25, "loop_p": 0.2, "or_split_p": 0.1,
}


def setup(ex: Exec, ch: Choices, info: dict[str, Any]) -> None:
    w = ex.world
    at = ch.pick("cancel.at", 60)
    # a third of the runs: the cancel arrives at the moment a JumpToStage is waiting in the queue (the jump then travels
    # through the cancel's fan-out of CancelStage messages, in whatever order the schedule picks)
    has_jump = any(t.get("b") == "jumper" for r in ex.program.order for t in ex.program.task_specs(r))
    on_jump = ch.pick("cancel.onjump", 3) != 2 and has_jump      # two thirds of the programs that jump at all
    info["cancel_at_step"] = "on-jump-queued" if on_jump else at
    info["cancel_requested"] = True
    n = [0]
    fired = [False]

    def between(eng: Any) -> None:
        hit = n[0] == at
        if on_jump:
            hit = (not fired[0]) and bool(w.hquery("SELECT 1 FROM queue_messages WHERE message_type = 'JumpToStage' LIMIT 1"))
        if hit:
            fired[0] = True
            with w.as_client("client-cancel"):
                wf = w.store.retrieve(ex.wf_id)
                w.orchestrator.cancel(wf, "sim", "c17")
            w.fault("cancel_request")
            if on_jump and directed:
                # transport delay on the waiting jump: the cancel request overtakes it
                _delay("JumpToStage", None, 0.25)
        elif on_jump and directed and fired[0] and not shaped[0]:
            # once the cancel has fanned out: the CancelStage of the jumping stage is delayed beyond the jump, the others
            # are not - the jump lands between them (all of it plain message delay)
            rows = w.hquery("SELECT id, payload FROM queue_messages WHERE message_type = 'CancelStage'")
            jrow = w.hquery("SELECT payload FROM queue_messages WHERE message_type = 'JumpToStage' LIMIT 1")
            if rows and jrow:
                import json as _json

                src = _json.loads(jrow[0]["payload"] or "{}").get("stage_id")
                for r in rows:
                    if _json.loads(r["payload"] or "{}").get("stage_id") == src:
                        _delay(None, r["id"], 1.0)
                shaped[0] = True
        n[0] += 1

    shaped = [False]
    directed = bool(ch.pick("cancel.directed", 2))

    def _delay(mtype: Any, rid: Any, secs: float) -> None:
        from sim import seams as _s

        t = _s.REAL.datetime.fromtimestamp((w.clock.us + int(secs * 1e6)) / 1e6, _s._dt.UTC).isoformat()
        if rid is not None:
            w.hwrite("UPDATE queue_messages SET deliver_at = ? WHERE id = ?", (t, rid))
        else:
            w.hwrite("UPDATE queue_messages SET deliver_at = ? WHERE message_type = ?", (t, mtype))
        w.fault("message_delay")

    ex.eng.between = between


def judge(prog: Any, ref: Any, run: dict[str, Any], info: dict[str, Any]) -> list[dict[str, Any]]:
    h = run["h"]
    problems: list[tuple[str, str, str]] = []
    cseq = None
    for r in h.audit:
        if r["kind"] == "pm_ins" and ctx_handler(r["ctx"]) == "CancelWorkflow":
            cseq = r["seq"]
            break
    if cseq is None:
        return []   # the request was never issued (run ended first) or never processed
    info["cancel_processed"] = True
    # statuses at c
    st: dict[str, str] = {}
    wf_at = None
    for r in h.audit:
        if r["seq"] > cseq:
            break
        if r["kind"] in ("stage_ins", "stage"):
            st[r["row_id"]] = r["new"]
        elif r["kind"] in ("wf", "wf_ins"):
            wf_at = r["new"]
    if wf_at in COMPLETE:
        return []   # cancel of an already finished workflow: nothing to demand
    late = [e for e in h.ledger if e["audit_seq"] >= cseq]
    if late:
        problems.append(("task-started-after-cancel",
                         f"{len(late)} task execution(s) began after the cancel was processed, first: {late[0]['key']} "
                         f"(stage status then {st.get(late[0]['stage_id'])})", "task-after-cancel"))
    if not run["quiescent"]:
        problems.append(("never-quiet", f"did not quiesce after cancel: {run['res'].aborted}", "noquiesce"))
    else:
        fs = run["fs"]
        by_id = {v["id"]: (k, v) for k, v in fs["stages"].items()}
        not_canceled = {}
        for sid, s_at in st.items():
            if s_at in COMPLETE:
                continue
            k, v = by_id.get(sid, (sid, {"status": "?"}))
            if v["status"] != "CANCELED":
                not_canceled[k] = (s_at, v["status"])
        kinds: dict[str, dict[str, Any]] = {}
        for k, (a, b) in not_canceled.items():
            kinds.setdefault(("synthetic" if "/" in k else "top") + ":" + a + "->" + b, {})[k] = (a, b)
        for kind, members in sorted(kinds.items()):
            problems.append(("stage-not-canceled",
                             f"stages unfinished when the cancel was processed did not end CANCELED (status at cancel, final): {members}",
                             "not-canceled:" + kind))
        top_all_done = all(st.get(v["id"]) in COMPLETE for k, v in fs["stages"].items() if not v["synthetic"])
        if fs["wf_status"] not in COMPLETE:
            problems.append(("workflow-not-final", f"workflow is {fs['wf_status']} after cancel", "wf-not-final:" + str(fs["wf_status"])))
        elif fs["wf_status"] != "CANCELED" and not top_all_done:
            problems.append(("workflow-not-canceled", f"workflow ended {fs['wf_status']} although stages were unfinished at cancel",
                             "wf-not-canceled:" + str(fs["wf_status"])))
    out: list[dict[str, Any]] = []
    for pr in problems:   # one violation per kind, so that each has its own signature
        out += one_violation("C17", [pr], h)
    return out


CHECK = DCheck("C17", PROFILE, judge, setup=setup, need_ref=False,
               nontrivial=lambda run, info: run["faults"].get("cancel_request", 0) > 0 and any(
                   r["kind"] == "pm_ins" and "|CancelWorkflow|" in (r["ctx"] or "") for r in run["h"].audit))
run_one = CHECK.run_one
replay_one = CHECK.replay_one
