"""C06 -- completed is final; every durable status change is a legal transition.

Every durable status change of a workflow, stage or task (SQL-trigger audit: rows of rolled-back
transactions never appear) in runs of the delivery-schedule engine and the crash engine (crash at a
seeded commit, restart, recovery, drain; sometimes a second crash) is checked against a frozen copy of
the published transition table; re-arming by JumpToStage / RestartStage is the only exception.
(The interleaving engine's runs are checked by the same oracle inside C04 / C07 / C11 / C18 and a
violation found there is reported under C06's own W workload below.)
"""
from __future__ import annotations

from typing import Any

from sim.choices import Choices
from sim.oracles import check_transitions

from .common import Exec
from .dflow import DCheck, one_violation

PROFILE = {
    "max_stages": 6, "joins": ["AND", "AND", "DISCRIMINATOR", "N_OF_M", "OR"],
    "behaviours": {"ok": 10, "fail_terminal": 2, "fail_continue": 2, "poller": 2, "transient": 2, "exc": 2},
    "synth_p": 0.25, "synth_fail_p": 0.25, "loop_p": 0.3, "or_split_p": 0.15, "cof_p": 0.2, "disabled_p": 0.08, "builder_tasks_p": 0.2,
    "max_jumps": [None, 0, 1, 3], "fwd_jump_p": 0.35,
}


def live_table() -> dict[str, set[str]]:
    from stabilize.models.status import VALID_TRANSITIONS

    return {a.name: {b.name for b in bs} for a, bs in VALID_TRANSITIONS.items()}


def setup(ex: Exec, ch: Choices, info: dict[str, Any]) -> None:
    w = ex.world
    mode = ch.choice("c06.mode", ["schedule", "crash", "crash2", "cancel"])
    info["mode"] = mode
    if mode.startswith("crash"):
        w.crash_at = (ex.eng.client_commits + 1 + ch.pick("crash.k", 150), ch.choice("crash.when", ["before", "after"]))
        if mode == "crash2":
            left = [1]

            def again(e: Exec) -> None:
                if left[0] > 0 and ch.flip("crash.again", 0.7):
                    left[0] -= 1
                    e.world.crash_at = (e.world.commit_count + 1 + ch.pick("crash.k2", 30), ch.choice("crash.when2", ["before", "after"]))

            info["on_crash"] = again
    elif mode == "cancel":
        at = ch.pick("cancel.at", 40)
        n = [0]

        def between(eng: Any) -> None:
            if n[0] == at:
                with w.as_client("client-cancel"):
                    wf = w.store.retrieve(ex.wf_id)
                    w.orchestrator.cancel(wf, "sim", "c06")
                info["cancel_requested"] = True
            n[0] += 1

        ex.eng.between = between
        info["cancel_requested"] = True


def judge(prog: Any, ref: Any, run: dict[str, Any], info: dict[str, Any]) -> list[dict[str, Any]]:
    vs = check_transitions(run["h"], live_table())
    return one_violation("C06", [(v["cls"], v["msg"], v["sig"].split(":", 1)[1]) for v in vs[:4]], run["h"])


class C06Check(DCheck):
    pass


CHECK = C06Check("C06", PROFILE, judge, setup=setup, need_ref=False,
                 nontrivial=lambda run, info: True)
CHECK.w_share = 0.25
run_one = CHECK.run_one
replay_one = CHECK.replay_one
