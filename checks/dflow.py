"""Boilerplate for engine-D checks: seeded program + seeded schedule (+ hook), judged by a callback."""
from __future__ import annotations

from typing import Any, Callable

from sim.choices import Choices
from sim.engine_d import DOpts
from sim.oracles import V
from sim.programs import Program, gen_program

from .common import (Exec, absorb, new_outcome, ref_unusable, run_exec, sample_of, swarm_knobs, swarm_opts)


class DCheck:
    def __init__(self, prop: str, profile: dict[str, Any],
                 judge: Callable[[Program, dict[str, Any] | None, dict[str, Any], dict[str, Any]], list[dict[str, Any]]],
                 make_program: Callable[[Choices, str], Program] | None = None,
                 setup: Callable[[Exec, Choices, dict[str, Any]], None] | None = None,
                 need_ref: bool = True, reorder: bool = True, lost_ack: bool = True,
                 knob_over: dict[str, Any] | None = None, ref_setup: bool = False,
                 nontrivial: Callable[[dict[str, Any], dict[str, Any]], bool] | None = None) -> None:
        self.prop = prop
        self.profile = profile
        self.judge = judge
        self.make_program = make_program
        self.setup = setup
        self.need_ref = need_ref
        self.reorder = reorder
        self.lost_ack = lost_ack
        self.knob_over = knob_over or {}
        self.ref_setup = ref_setup
        self.nontrivial = nontrivial
        self.w_share = 0.0            # share of runs executed under engine W (statement-level interleaving)
        self.w_extra = None           # callable(ch, info) -> list of extra worker factories

    def flow(self, ch: Choices, tier: str) -> tuple[Program, dict[str, Any] | None, dict[str, Any], dict[str, Any]]:
        prog = self.make_program(ch, tier) if self.make_program else gen_program(ch, self.profile)
        knobs = swarm_knobs(ch, **self.knob_over)
        opts = swarm_opts(ch, self.reorder, self.lost_ack)
        if getattr(self, "inorder_share", 0.0) > 0 and ch.flip("o.inorder", self.inorder_share):
            opts = DOpts()      # plain in-order, exactly-once delivery for this run
        info: dict[str, Any] = {"opts": dict(opts.__dict__), "knobs": knobs.to_dict()}
        ref = None
        if self.need_ref:
            rs = None
            if self.ref_setup and self.setup is not None:
                rch = Choices(ch.seed, replay=[])
                rs = lambda ex: self.setup(ex, rch, {"reference": True})  # noqa: E731
            ref = run_exec(prog, knobs, Choices(ch.seed, replay=[]), DOpts(), setup=rs, max_steps=4000)
        budget = ((12 * ref["steps"] + 100 if ref else getattr(self, "free_budget", 1500)) + 3 * knobs.max_stage_wait_retries
                  + int(getattr(self, "extra_budget", 0)))
        if ref is not None:
            info["ref_steps"] = ref["steps"]
        st = None
        if self.setup is not None:
            def st(ex: Exec) -> None:
                self.setup(ex, ch, info)
                if info.get("on_crash") is not None:
                    ex.on_crash_hook = info["on_crash"]  # type: ignore[attr-defined]
                if info.get("sweeps") is not None:
                    ex.sweeps = info["sweeps"]  # type: ignore[attr-defined]
        info["budget"] = budget
        use_w = self.w_share > 0 and ch.flip("engine.w", self.w_share)
        if self.w_share > 0 and getattr(prog, "spec", {}).get("force_w"):
            use_w = True        # a program family that only makes sense with interleaved workers
        if use_w:
            from .common import run_w

            knobs.peer_emulation = bool(ch.pick("k.peer", 2))
            info["engine"] = "W"
            extra = self.w_extra(ch, info) if self.w_extra else None
            run = run_w(prog, knobs, ch, nworkers=2 + ch.pick("w.n", 2), strategy=ch.choice("w.strategy", ["random", "pct", "random", "stall"]),
                        pct_depth=1 + ch.pick("w.depth", 3), extra_workers=extra)
            if run["errors"]:
                raise RuntimeError("worker error in engine W: " + run["errors"][0])
            run["res"] = type("R", (), {"aborted": run["end"], "deliveries": [], "quiescent": run["quiescent"]})()
            return prog, ref, run, info
        # position of the first choice taken inside run_exec (setup picks first): a twin run that must repeat this
        # execution replays the trace from here
        info["trace_pos_run"] = len(ch.trace)
        run = run_exec(prog, knobs, ch, opts, setup=st, max_steps=budget,
                       cancel_requested=bool(info.get("cancel_requested")))
        return prog, ref, run, info

    def run_one(self, seed: int, tier: str) -> dict[str, Any]:
        out = new_outcome()
        ch = Choices(seed)
        prog, ref, run, info = self.flow(ch, tier)
        if ref is not None and ref_unusable(ref, prog):
            out["inconclusive"] += 1
            out["execs"] += 1
            out["stats"]["reference_not_clean"] = 1
            return out
        nt = (run["faults"].get("reorder", 0) + run["faults"].get("lost_ack", 0)) > 0
        if self.nontrivial is not None:
            nt = self.nontrivial(run, info)
        if info.get("engine") == "W":
            nt = run["stats"].get("preemptions", 0) > 0
            out["stats"]["engine_W_runs"] = 1
        if ref is not None:
            absorb(out, ref, False)
        absorb(out, run, nt)
        vs = self.judge(prog, ref, run, info)
        for v in vs:
            v["replay"] = {"check": self.prop, "seed": seed, "trace": ch.trace}
        out["violations"] = vs
        out["samples"].append(sample_of(prog, ch.trace, {"info": {k: v for k, v in info.items() if k != "knobs" and not callable(v)},
                                                        "deliveries": run["res"].deliveries[:25]}))
        for f in prog.features():
            out["stats"]["feature:" + f] = 1
        for k, v in (info.get("stats") or {}).items():
            out["stats"][k] = out["stats"].get(k, 0) + v
        return out

    def replay_one(self, rep: dict[str, Any]) -> list[dict[str, Any]]:
        ch = Choices(rep["seed"], replay=rep["trace"])
        prog, ref, run, info = self.flow(ch, "quick")
        if ref is not None and ref_unusable(ref, prog):
            return []
        return self.judge(prog, ref, run, info)


def one_violation(prop: str, problems: list[tuple[str, str, str]], h: Any = None, ref_h: Any = None,
                  prog: Any = None, fs: Any = None) -> list[dict[str, Any]]:
    """problems: (class, message, signature tail).  When the history shows a message of an earlier loop
    iteration acting on a re-armed stage, that diagnosis becomes part of the signature.  ``ref_h``: history of
    the reference run the outcome was compared with -- the in-order run is not immune to that defect (a
    StartTask queued just before a JumpToStage is delivered just after it), and a difference between the two
    runs is then the reference's doing."""
    if not problems:
        return []
    cls, _, tail = problems[0]
    sig = f"{prop}:{tail or cls}"
    tails = [t or c for c, _, t in problems]      # every difference found, not only the first (for listed findings)
    stale: list[str] = []
    if h is not None:
        from sim.oracles import stale_applications

        st = stale_applications(h)
        if st:
            x = st[0]
            stale = [f"{x['handler']}:{x['kind']}:{x['old']}->{x['new']}"]
            sig += f"<-stale-{x['handler']}-after-rearm"
            problems = problems + [("diagnosis", f"a {x['handler']} message queued before stage {x['stage']} was re-armed "
                                                 f"changed its {x['kind']} {x['old']}->{x['new']} afterwards", "")]
    if ref_h is not None and not stale:
        from sim.oracles import stale_applications

        st = stale_applications(ref_h)
        if st:
            x = st[0]
            stale = [f"ref:{x['handler']}:{x['kind']}:{x['old']}->{x['new']}"]
            sig += f"<-reference-stale-{x['handler']}-after-rearm"
            problems = problems + [("diagnosis", f"in the in-order reference run a {x['handler']} message queued before stage {x['stage']} "
                                                 f"was re-armed changed its {x['kind']} {x['old']}->{x['new']} afterwards", "")]
    planlost: list[str] = []
    if h is not None:
        from sim.oracles import plan_lost_after_claim

        pl = plan_lost_after_claim(h)
        if pl:
            planlost = [pl[0]["stage"]]
            sig += "<-plan-commit-lost"
            problems = problems + [("diagnosis", f"StartStage {pl[0]['msg']} claimed stage {pl[0]['stage']} and was acknowledged but its "
                                                 f"plan never became durable (optimistic-lock conflict swallowed): nothing was queued", "")]
    sweepwindow: list[str] = []
    if h is not None:
        from sim.oracles import sweep_in_claim_plan_window

        sw = sweep_in_claim_plan_window(h)
        if sw:
            x = sw[0]
            sweepwindow = [f"{x['queued']}:{x['stage']}"]
            sig += "<-sweep-inside-claim-plan-window"
            if x["how"] == "rearmed-during-sweep":
                d = (f"a recovery sweep queued {x['queued']} for stage {x['stage']}, which was RUNNING when the sweep began and had been "
                     f"re-armed by a jump before the push landed (check and push are not atomic)")
            elif x["how"] == "inside":
                d = (f"a recovery sweep queued {x['queued']} for stage {x['stage']} between the claim commit and the last planning "
                     f"commit of StartStage {x['msg']}: it started a stage whose planning (tasks / before-stages) was not durable yet")
            else:
                d = (f"a recovery sweep queued StartTask for stage {x['stage']} while its before-stages were unfinished: the sweep "
                     f"read the stage before a concurrent StartStage had stored them and pushed after (check and push are not atomic)")
            problems = problems + [("diagnosis", d, "")]
    jumppath: list[str] = []
    if h is not None and prog is not None:
        from sim.oracles import jump_path_not_rearmed

        jp = jump_path_not_rearmed(h, prog)
        if jp:
            x = jp[0]
            jumppath = [f"{x['source']}->{x['target']} skipping {','.join(x['not_rearmed'])}"]
            sig += "<-jump-path-not-rearmed"
            problems = problems + [("diagnosis", f"the jump from {x['source']} back to {x['target']} re-armed both but left the completed "
                                                 f"stage(s) {x['not_rearmed']} between them untouched (fan-in with an upstream outside "
                                                 f"the re-armed set): nothing restarts {x['source']}", "")]
    stalejump: list[str] = []
    if h is not None:
        from sim.oracles import jump_stale_rearm

        sj = jump_stale_rearm(h)
        if sj:
            stalejump = [f"{x['stage']}:{x['child']}" for x in sj]
            sig += "<-jump-applied-on-stale-plan"
            problems = problems + [("diagnosis", f"a jump re-armed stage {sj[0]['stage']} but not its synthetic child {sj[0]['child']}, which another "
                                                 f"worker had created after the jump handler took its message: the child stays complete and the "
                                                 f"re-armed stage waits for it forever", "")]
    skipovertaken: list[str] = []
    if h is not None:
        from sim.oracles import skip_overtaken

        so = skip_overtaken(h)
        if so:
            skipovertaken = so
            sig += "<-startstage-overtook-skipstage"
            problems = problems + [("diagnosis", f"stage(s) {so} started while the SkipStage that an OR-split had queued for them was still "
                                                 f"in the queue: the deactivated branch ran", "")]
    rearmedchild: list[str] = []
    if h is not None and fs is not None:
        from sim.oracles import rearmed_after_children

        rc = rearmed_after_children(h, fs)
        if rc:
            rearmedchild = rc
            sig += "<-rearmed-after-child-never-restarted"
            problems = problems + [("diagnosis", f"a jump re-armed the after / on-failure stage(s) {rc} of a stage that later failed again: "
                                                 f"CompleteStage takes the NOT_STARTED leftovers for children in flight and waits for them", "")]
    msg = " || ".join(f"{c}: {m}" for c, m, _ in problems)
    return [V(prop, cls, msg, rearmedchild=rearmedchild, skipovertaken=skipovertaken, stalejump=stalejump, sig=sig, classes=[c for c, _, _ in problems], stale=stale, planlost=planlost, jumppath=jumppath, sweepwindow=sweepwindow, tails=tails)]
