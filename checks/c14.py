"""C14 -- transient failures: bounded number of retries, saved progress is kept.

Engine D.  A stage (alone or inside a short chain, with the task first / middle / last among 1-3 tasks)
whose task raises ``TransientError`` k consecutive times, k from 0 to beyond the documented limit (and
"always"), with and without ``context_update``; plus a polling task.  In-order and shuffled delivery,
lost acknowledgements.  Oracle: every attempt sees the progress attached by the previous one; k well below
the limit => success after k+1 attempts; at the limit => a finite number of executions (<= documented
maximum + 1, i.e. 11), then task TERMINAL, stage failed per its failure policy, workflow failed; every
retry is queued with a deliver_at later than the failure.
"""
from __future__ import annotations

import json
from typing import Any

from sim.choices import Choices
from sim.programs import Program, task_name

from .common import Exec
from .dflow import DCheck, one_violation

DOCUMENTED_MAX = 10


def make_program(ch: Choices, tier: str) -> Program:
    kind = ch.choice("c14.kind", ["transient", "transient", "transient", "poller"])
    ntasks = 1 + ch.pick("c14.ntasks", 3)
    pos = ch.pick("c14.pos", ntasks)
    if kind == "transient":
        k: Any = ch.choice("c14.k", [0, 1, 2, 3, 5, 8, 9, 10, 11, 13, "inf"])
        t = {"b": "transient", "k": k, "progress": bool(ch.pick("c14.progress", 2)), "out": {"k0": "s"}}
    else:
        t = {"b": "poller", "n": 1 + ch.pick("c14.polls", 6), "out": {"k0": "s"}}
    tasks = [{"b": "ok", "out": {}} for _ in range(ntasks)]
    tasks[pos] = t
    stages = []
    pre = ch.pick("c14.pre", 2)
    post = ch.pick("c14.post", 2)
    if pre:
        stages.append({"ref": "P", "deps": [], "ctx": {}, "tasks": [{"b": "ok", "out": {"k1": "s"}}]})
    ctx: dict[str, Any] = {}
    if ch.flip("c14.cof", 0.25):
        ctx["continuePipelineOnFailure"] = True
    stages.append({"ref": "S", "deps": ["P"] if pre else [], "ctx": ctx, "tasks": tasks})
    if post:
        stages.append({"ref": "Q", "deps": ["S"], "ctx": {}, "tasks": [{"b": "ok", "out": {}}]})
    return Program({"name": "c14", "wf_ctx": {}, "stages": stages, "focus": task_name("S", pos)})


def judge(prog: Program, ref: Any, run: dict[str, Any], info: dict[str, Any]) -> list[dict[str, Any]]:
    h = run["h"]
    focus = prog.spec["focus"]
    idx = int(focus.split("_")[2])
    t = prog.task_specs("S")[idx]
    ents = [e for e in h.ledger if e["key"] == focus]
    n = len(ents)
    lost = run["faults"].get("lost_ack", 0)
    # injected commit failures (disk I/O error at a seeded commit, engine D share): the failed handling is delivered again
    # and repeats the same attempt - one extra execution each, seeing the progress of the last *committed* attempt
    iof = sum(v for k, v in run["faults"].items() if k.startswith("io_commit:"))
    lost += iof
    problems: list[tuple[str, str, str]] = []
    fs = run["fs"]
    S = fs["stages"].get("S", {})
    tstat = dict(S.get("tasks") or []).get(focus)
    if t["b"] == "poller":
        cs = [int(e["result"].split(":")[2]) for e in ents]
        if cs != sorted(set(cs)):
            problems.append(("poll-context-lost", f"poll counters seen by successive polls are not strictly increasing: {cs}", "poll-ctx"))
        if not run["quiescent"]:
            problems.append(("never-finishes", f"polling task did not finish: {run['res'].aborted}", "poll-noquiesce"))
        elif tstat != "SUCCEEDED" or fs["wf_status"] != "SUCCEEDED":
            problems.append(("wrong-outcome", f"polling task ended {tstat}, workflow {fs['wf_status']}", "poll-outcome"))
        return one_violation("C14", problems, h)
    k = t["k"]
    progress = t.get("progress", True)
    if progress:
        cs = [int(e["result"].split(":")[2]) for e in ents]
        if any(b < a or (b == a and not iof) for a, b in zip(cs, cs[1:])):
            problems.append(("progress-lost", f"progress counters seen by successive attempts are not strictly increasing: {cs}", "progress"))
    # (a delivery repeated after an injected commit failure uses up one of the attempts as well)
    below = k != "inf" and int(k) + 1 + iof < DOCUMENTED_MAX
    if n > DOCUMENTED_MAX + 1 + lost:
        problems.append(("retried-beyond-limit",
                         f"task executed {n} times (k={k}, progress={progress}); the documented maximum is {DOCUMENTED_MAX} attempts"
                         + ("" if run["quiescent"] else " and it was still being retried when the step budget ended"),
                         "beyond-limit"))
    elif not run["quiescent"]:
        problems.append(("never-finishes", f"run did not quiesce: {run['res'].aborted}", "noquiesce"))
    if run["quiescent"]:
        if below:
            if tstat != "SUCCEEDED":
                problems.append(("wrong-outcome", f"k={k} failures are below the limit but the task ended {tstat} after {n} executions", "below-limit-not-succeeded"))
            elif n < int(k) + 1:
                problems.append(("wrong-outcome", f"task succeeded after {n} executions although it fails {k} times", "too-few"))
        elif k == "inf" or int(k) >= DOCUMENTED_MAX + 1:
            cof = bool(prog.stages["S"]["ctx"].get("continuePipelineOnFailure"))
            want_task = "FAILED_CONTINUE" if cof else "TERMINAL"   # failure status follows the stage's failure policy
            if tstat != want_task:
                problems.append(("not-terminal-at-limit", f"k={k}: task ended {tstat} after {n} executions, expected {want_task}", "not-terminal"))
            want_stage = "FAILED_CONTINUE" if cof else "TERMINAL"
            if S.get("status") != want_stage:
                problems.append(("stage-not-failed", f"stage ended {S.get('status')}, expected {want_stage}", "stage-status"))
            want_wf = "SUCCEEDED" if cof else "TERMINAL"
            if fs["wf_status"] != want_wf:
                problems.append(("workflow-not-failed", f"workflow ended {fs['wf_status']}, expected {want_wf}", "wf-status"))
    # every retry is queued for later than the failure that caused it
    commit_t = {c.n: c.t_us for c in h.commits}
    for r in h.audit:
        if r["kind"] == "q_ins" and r["new"] == "RunTask" and "|RunTask|" in (r["ctx"] or ""):
            ci = h.commit_of(r["seq"])
            if ci is None:
                continue
            da = (r["extra"] or {}).get("deliver_at")
            from sim.engine_d import _iso_us

            if da and _iso_us(da) <= h.commits[ci].t_us - 2000:
                problems.append(("retry-without-backoff", f"retry RunTask queued with deliver_at {da} not later than the failure", "no-backoff"))
                break
    _ = (commit_t, json)
    return one_violation("C14", problems, h)


def setup(ex: Exec, ch: Choices, info: dict[str, Any]) -> None:
    """A fifth of the engine-D runs: one or two commits fail with a disk I/O error (not a lock error, so nothing retries
    it in place): if it is the retry handler's own commit, the exception must reach the processor so that the delivery
    is repeated - a handler that swallows it leaves the task RUNNING with nothing queued."""
    if ch.flip("c14.iofault", 0.2):
        # aimed at the retry path's own commit: the first commit after the j-th transient failure of the task (context
        # update + retry copy).  What the engine does with a disk error anywhere else is not C14's subject.
        which = {1 + ch.pick("c14.io.j", 6) for _ in range(1 + ch.pick("c14.io.n", 2))}
        seen = [0, -1]      # transient failures seen so far, ledger length at the last one

        def pred(w: Any, n: int) -> str | None:
            led = w.ledger
            if not led or len(led) == seen[1]:
                return None
            e = led[-1]
            if ":fail:" in str(e.get("result")) and e.get("commit_count") == w.commit_count \
                    and w.ctx.get(w.current_worker(), ("", ""))[0] == "RunTask":
                seen[0] += 1
                seen[1] = len(led)
                if seen[0] in which:
                    return "disk I/O error"
            return None

        ex.world.io_fault_pred = pred


CHECK = DCheck("C14", {}, judge, make_program=make_program, setup=setup, need_ref=False,
               nontrivial=lambda run, info: any(":fail:" in e["result"] or ":running:" in e["result"] for e in run["ledger"]))


def w_signaller(ch: Choices, info: dict[str, Any]) -> list[Any]:
    """Engine W share: a peer buffers one to three persistent signals on stage S while it retries - a legitimate
    concurrent writer of the stage row, landing at seeded instants (also between the retry handler's re-read of
    the stage and its store).  Progress and retry accounting must not care."""
    n = 1 + ch.pick("c14.nsig", 3)
    gaps = [ch.choice("c14.siggap", [0.0, 0.002, 0.01, 0.05, 0.5, 2.0]) for _ in range(n)]
    info["signals"] = n

    def mk(world: Any) -> Any:
        def body(wk: Any) -> None:
            from stabilize.queue.messages import SignalStage

            for i in range(n):
                world.sched.sleep(gaps[i])
                for _ in range(200):
                    if world.sched.stopping:
                        return
                    rows = world.hquery("SELECT id, execution_id, status FROM stage_executions WHERE ref_id = 'S'")
                    if rows and rows[0]["status"] == "RUNNING":
                        break
                    if rows and rows[0]["status"] not in ("NOT_STARTED", "RUNNING"):
                        return
                    world.sched.sleep(0.003)
                else:
                    return
                with world.as_client("peer-signal"):
                    world.queue.push(SignalStage(execution_type="PIPELINE", execution_id=rows[0]["execution_id"], stage_id=rows[0]["id"],
                                                 signal_name=f"n{i}", signal_data={"i": i}, persistent=True))
                world.fault("signal_buffered_during_retry")

        return body

    return [mk]


CHECK.w_share = 0.25
CHECK.w_extra = w_signaller


def _flow_budget(orig):  # noqa: ANN001
    return orig


run_one = CHECK.run_one
replay_one = CHECK.replay_one
CHECK.free_budget = 260
