"""C11 -- mutex admits one running stage; a deferred choice has exactly one winner.

Engine W: 2-4 sibling stages sharing a ``mutex_key`` (parallel branches, some with several tasks, some
failing) or a ``deferred_choice_group``; 2-3 workers interleaved at statement level; an extra actor runs the
retention sweep (``cleanup_completed_stage_claims`` + ``cleanup_old_processed_messages``) at arbitrary
points.  Oracle: after every commit at most one stage per mutex key is RUNNING; at quiescence every mutex
sibling whose upstream allowed it has run; per choice group exactly one stage ever left NOT_STARTED for
RUNNING and the others are CANCELED; a claim row of a live execution is never deleted.
"""
from __future__ import annotations

from typing import Any

from sim.choices import Choices
from sim.oracles import check_mutex_choice
from sim.programs import Program, task_name

from .dflow import one_violation
from .wflow import WCheck

ok = lambda **kw: {"b": "ok", "out": kw}  # noqa: E731


def make_program(ch: Choices, tier: str) -> Program:
    kind = ch.choice("c11.kind", ["mutex", "mutex", "choice"])
    n = 2 + ch.pick("c11.n", 3)
    stages: list[dict[str, Any]] = []
    root = bool(ch.pick("c11.root", 2))
    if root:
        stages.append({"ref": "R", "deps": [], "ctx": {}, "tasks": [ok()]})
    sib = []
    for i in range(n):
        r = f"S{i}"
        sib.append(r)
        nt = 1 + ch.pick("c11.nt", 2)
        tasks: list[dict[str, Any]] = [ok() for _ in range(nt)]
        if kind == "mutex" and ch.flip("c11.fail", 0.15):
            tasks[-1] = {"b": "fail_continue", "out": {}}
        if ch.flip("c11.poll", 0.2):
            tasks[0] = {"b": "poller", "n": 1, "out": {}}
        if kind == "mutex" and i == 0 and ch.flip("c11.suspend", 0.3):
            # the holder leaves RUNNING without leaving its critical section: it suspends until a signal arrives
            tasks[0] = {"b": "suspender", "out": {}}
        s: dict[str, Any] = {"ref": r, "deps": ["R"] if root else [], "ctx": {}, "tasks": tasks}
        if kind == "mutex":
            s["mutex"] = "m"
        else:
            s["choice"] = "g"
        stages.append(s)
    if kind == "mutex":
        stages.append({"ref": "Z", "deps": sib, "ctx": {}, "tasks": [ok()]})
    return Program({"name": "c11-" + kind, "wf_ctx": {}, "stages": stages, "kind": kind, "siblings": sib})


def signaller(ch: Choices, info: dict[str, Any]) -> Any:
    """Resumes a suspended mutex holder after a seeded gap (long enough, sometimes, for a waiting sibling's re-queued
    StartStage to be handled while the holder is SUSPENDED)."""
    gap = ch.choice("c11.siggap", [0.05, 2.0, 16.0, 31.0, 50.0])

    def mk(world: Any) -> Any:
        def body(wk: Any) -> None:
            from stabilize.hitl import send_signal

            for _ in range(3000):
                if world.sched.stopping:
                    return
                rows = world.hquery("SELECT id, execution_id, status FROM stage_executions WHERE ref_id = 'S0'")
                if rows and rows[0]["status"] == "SUSPENDED":
                    break
                if rows and rows[0]["status"] in ("SUCCEEDED", "FAILED_CONTINUE", "TERMINAL", "CANCELED", "SKIPPED"):
                    return
                world.sched.sleep(0.01)
            else:
                return
            world.sched.sleep(gap)
            with world.as_client("client-signal"):
                send_signal(world.queue, rows[0]["execution_id"], rows[0]["id"], "go", {"tag": "resume"}, persistent=True)
            world.fault("holder_resumed_by_signal")

        return body

    return mk


def extra_workers(ch: Choices, info: dict[str, Any]) -> list[Any]:
    out: list[Any] = [signaller(ch, info)]      # harmless when no stage suspends
    if not ch.flip("c11.sweeper", 0.6):
        return out
    info["sweeper"] = True

    def mk(world: Any) -> Any:
        def body(wk: Any) -> None:
            sched = world.sched
            for _ in range(6):
                if sched.stopping:
                    return
                world.ctx[wk.wid] = ("retention", "")
                try:
                    n1 = world.store.cleanup_completed_stage_claims()
                    n2 = world.store.cleanup_old_processed_messages(max_age_hours=24.0)
                    world.fault("retention_sweep")
                    if n1 or n2:
                        world.probe("retention_removed", n1 + n2)
                except Exception as e:
                    world.notes.append("sweeper: " + str(e)[:200])
                sched.sleep(0.05)

        return body

    return out + [mk]


def judge(prog: Program, run: dict[str, Any], info: dict[str, Any]) -> list[dict[str, Any]]:
    h = run["h"]
    problems: list[tuple[str, str, str]] = []
    for v in check_mutex_choice(h):
        problems.append((v["cls"], v["msg"], v["cls"]))
    live_wf = None
    wf_done_seq = None
    for r in h.audit:
        if r["kind"] == "wf" and r["new"] in ("SUCCEEDED", "TERMINAL", "CANCELED", "STOPPED"):
            wf_done_seq = r["seq"]
    for r in h.audit:
        if r["kind"] == "claim_del" and (wf_done_seq is None or r["seq"] < wf_done_seq):
            # only deletions that re-open the exclusion count: a deferred-choice claim is decided once per execution;
            # a mutex claim protects its owner while that stage runs (a finished owner's claim is stealable anyway)
            key = str(r["row_id"]).split("/", 1)[-1]
            owner_st = h.stage_status_at(str(r["old"]), r["seq"])
            if key.startswith("choice:") or owner_st in ("RUNNING", "NOT_STARTED", None):
                problems.append(("live-claim-deleted", f"claim {r['row_id']} (owner stage {h.key_of_stage(str(r['old']))}: {owner_st}) of a "
                                                       f"live execution was deleted by {r['ctx']}", "claim-deleted"))
                break
    _ = live_wf
    if run["quiescent"]:
        fs = run["fs"]
        kind = prog.spec["kind"]
        sib = prog.spec["siblings"]
        if kind == "mutex":
            not_run = [s for s in sib if run["counts"].get(task_name(s, 0), 0) == 0]
            if not_run and fs["wf_status"] not in ("TERMINAL", "CANCELED"):
                problems.append(("mutex-waiter-starved", f"mutex siblings never ran: {not_run}; statuses "
                                 f"{ {s: fs['stages'][s]['status'] for s in sib} }", "starved"))
        else:
            st = {s: fs["stages"][s]["status"] for s in sib}
            winners = [s for s in sib if run["counts"].get(task_name(s, 0), 0) > 0]
            if len(winners) != 1:
                problems.append(("choice-winner-count", f"{len(winners)} stages of the choice group executed: {winners} ({st})", "winners"))
            losers = [s for s in sib if s not in winners and st[s] != "CANCELED"]
            if losers:
                problems.append(("choice-loser-not-canceled", f"losing branches not CANCELED: { {s: st[s] for s in losers} }", "loser-status"))
    elif run["end"] != "step-cap":
        problems.append(("not-quiescent", f"run ended '{run['end']}'", "end:" + run["end"]))
    return one_violation("C11", problems, h)


CHECK = WCheck("C11", {}, judge, make_program=make_program, extra_workers=extra_workers)
run_one = CHECK.run_one
replay_one = CHECK.replay_one
