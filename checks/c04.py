"""C04 -- a stage starts exactly once even when workers race.

Engine W: two or three workers (threads of one QueueProcessor; in half of the runs with the process-local
guards wiped at every yield so that only the durable protocol is tested) each loop poll/handle over the same
workflow, pre-empted at every SQL statement / commit / sleep / task boundary by a seeded scheduler (random
walk or PCT priorities with 1-3 change points).  Programs: fan-in shapes - 2-3 branches into an AND /
DISCRIMINATOR / N_OF_M / OR join with a stage behind the join, several tasks, synthetic stages.
Oracle: per stage and arming exactly one durable NOT_STARTED->RUNNING; the stage is planned once (one
StartStage-handler commit queues its first work); each task step runs once; each completed upstream queues
exactly one StartStage per downstream; late branches of first-of / quorum joins do not re-run the join.
"""
from __future__ import annotations

import json
from typing import Any

from sim.choices import Choices
from sim.oracles import check_ledger_unique
from sim.programs import Program

from .dflow import one_violation
from .wflow import WCheck

ok = lambda **kw: {"b": "ok", "out": kw}  # noqa: E731


def make_program(ch: Choices, tier: str) -> Program:
    nb = 2 + ch.pick("c04.branches", 2)
    join = ch.choice("c04.join", ["AND", "DISCRIMINATOR", "N_OF_M", "OR", "AND"])
    stages: list[dict[str, Any]] = []
    root = bool(ch.pick("c04.root", 2))
    if root:
        stages.append({"ref": "R", "deps": [], "ctx": {}, "tasks": [ok(k0="s")]})
    brs = []
    for i in range(nb):
        r = f"B{i}"
        brs.append(r)
        nt = 1 + ch.pick("c04.nt", 2)
        tasks = [ok(**{f"k{(i + j) % 4}": "s"}) for j in range(nt)]
        if ch.flip("c04.poll", 0.2):
            tasks[0] = {"b": "poller", "n": 1, "out": {}}
        stages.append({"ref": r, "deps": ["R"] if root else [], "ctx": {}, "tasks": tasks})
    j: dict[str, Any] = {"ref": "J", "deps": brs, "ctx": {}, "join": join, "tasks": [ok(k1="s")] + ([ok()] if ch.pick("c04.jt", 2) else [])}
    if join == "N_OF_M":
        j["thr"] = 1 + ch.pick("c04.thr", nb)
    if ch.flip("c04.synth", 0.25):
        j["synth"] = {"before": 1 + ch.pick("c04.nb", 2), "after": ch.pick("c04.na", 2), "fail": 0}
    stages.append(j)
    stages.append({"ref": "Z", "deps": ["J"], "ctx": {}, "tasks": [ok()]})
    spec: dict[str, Any] = {"name": "c04", "wf_ctx": {}, "stages": stages}
    if ch.flip("c04.bt", 0.5):
        spec["builder_tasks"] = True
    return Program(spec)


def extra_workers(ch: Choices, info: dict[str, Any]) -> list[Any]:
    """A peer that re-sends StartStage(J) once J's upstream allows it to start (what a recovery sweep, a
    second upstream completion or a re-queued mutex waiter legitimately produce): several workers then
    handle start requests for the same stage at the same time."""
    if not ch.flip("c04.dup", 0.6):
        return []
    n = 1 + ch.pick("c04.ndup", 2)
    info["duplicate_startstage"] = n
    # "late": the duplicate arrives while J is claimed but not planned yet (RUNNING, no task started) - a redelivered
    # StartStage or a sweep's StartStage can land in that window as well as before the claim
    late = bool(ch.pick("c04.duplate", 2))
    info["duplicate_late"] = late

    def mk(world: Any) -> Any:
        def body(wk: Any) -> None:
            from stabilize.queue.messages import StartStage

            for _ in range(400):
                if world.sched.stopping:
                    return
                rows = world.hquery("SELECT id, execution_id, status, ref_id FROM stage_executions WHERE parent_stage_id IS NULL")
                by = {r["ref_id"]: r for r in rows}
                j = by.get("J")
                ups = [r for k, r in by.items() if k.startswith("B")]
                if late:
                    if j is not None and j["status"] == "RUNNING":
                        started = world.hquery("SELECT count(*) AS c FROM task_executions WHERE stage_id = ? AND status != 'NOT_STARTED'",
                                               (j["id"],))[0]["c"]
                        if not started:
                            with world.as_client("peer-startstage"):
                                for _i in range(n):
                                    world.queue.push(StartStage(execution_type="PIPELINE", execution_id=j["execution_id"], stage_id=j["id"]))
                            world.fault("duplicate_startstage_late", n)
                        return
                    if j is not None and j["status"] not in ("NOT_STARTED", "RUNNING"):
                        return
                elif j is None or j["status"] != "NOT_STARTED":
                    if j is not None and j["status"] != "NOT_STARTED":
                        return
                elif ups and sum(1 for r in ups if r["status"] in ("SUCCEEDED", "FAILED_CONTINUE", "SKIPPED")) >= 1:
                    with world.as_client("peer-startstage"):
                        for _i in range(n):
                            world.queue.push(StartStage(execution_type="PIPELINE", execution_id=j["execution_id"], stage_id=j["id"]))
                    world.fault("duplicate_startstage", n)
                    return
                world.sched.sleep(0.002)

        return body

    return [mk]


def judge(prog: Program, run: dict[str, Any], info: dict[str, Any]) -> list[dict[str, Any]]:
    h = run["h"]
    problems: list[tuple[str, str, str]] = []
    # 1. one durable start per stage and arming (row-level it cannot be otherwise; kept as a canary)
    starts: dict[str, int] = {}
    for r in h.audit:
        if r["kind"] == "stage" and r["old"] == "NOT_STARTED" and r["new"] == "RUNNING":
            starts[r["row_id"]] = starts.get(r["row_id"], 0) + 1
    for sid, n in starts.items():
        if n > 1:
            problems.append(("started-twice", f"stage {h.key_of_stage(sid)} left NOT_STARTED for RUNNING {n} times", "started-twice"))
    # 2. planned once: StartStage-handler commits that queue the stage's first work
    plans: dict[str, int] = {}
    down: dict[tuple[str, str], int] = {}
    for r in h.audit:
        if r["kind"] != "q_ins":
            continue
        p = json.loads((r["extra"] or {}).get("payload") or "{}")
        ctx = r["ctx"] or ""
        if r["new"] == "StartTask" and "|StartStage|" in ctx:
            plans[p.get("stage_id", "")] = plans.get(p.get("stage_id", ""), 0) + 1
        if r["new"] == "StartStage" and "|CompleteStage|" in ctx:
            src = ctx.split("|")[3]
            down[(src, p.get("stage_id", ""))] = down.get((src, p.get("stage_id", "")), 0) + 1
    for sid, n in plans.items():
        if n > 1:
            problems.append(("planned-twice", f"stage {h.key_of_stage(sid)}: its first task was queued by {n} StartStage handlings", "planned-twice"))
    # 3. each completed upstream triggers each downstream once
    completes: dict[str, int] = {}
    for r in h.audit:
        if r["kind"] == "stage" and r["old"] == "RUNNING" and r["new"] in ("SUCCEEDED", "FAILED_CONTINUE", "SKIPPED"):
            completes[r["row_id"]] = completes.get(r["row_id"], 0) + 1
    per_down: dict[str, int] = {}
    for (src, dst), n in down.items():
        per_down[dst] = per_down.get(dst, 0) + n
    for ref in prog.order:
        sid = h.ref_to_id.get(ref)
        ups = prog.deps(ref)
        if not sid or not ups:
            continue
        done_ups = sum(1 for u in ups if completes.get(h.ref_to_id.get(u, ""), 0) > 0)
        if per_down.get(sid, 0) > done_ups:
            problems.append(("downstream-triggered-twice",
                             f"stage {ref} received {per_down.get(sid, 0)} StartStage from {done_ups} completed upstream(s)", "trigger-twice"))
    # 3b. planned once also means: each synthetic child (before / after stage) is created once per parent - storing
    # them is the one part of a start that the optimistic lock on the parent row does not cover
    from sim.oracles import ctx_handler, ctx_msgid

    made: dict[tuple[str, str, str], list[dict[str, Any]]] = {}
    for r in h.audit:
        if r["kind"] == "stage_ins":
            info_ = h.stage_info.get(r["row_id"]) or {}
            if info_.get("parent"):
                made.setdefault((info_["parent"], str(info_.get("owner")), str(info_.get("name"))), []).append(r)
    claim_of: dict[tuple[str, str], int] = {}     # (stage id, message id) -> seq of that handling's claim write
    for r in h.audit:
        if r["kind"] == "stage" and r["new"] == "RUNNING" and ctx_handler(r["ctx"]) == "StartStage":
            claim_of.setdefault((r["row_id"], ctx_msgid(r["ctx"])), r["seq"])
    for (par, owner, name), rows in made.items():
        if len(rows) > 1:
            # the planner asks the store "does this stage own before-stages already?" right before it builds them.  Two
            # handlings that both ask before either has stored its set is a window the engine is known to have
            # (KF-C04-before-stages-planned-twice); a second set built although the first one was durable *before the
            # second handling even claimed the stage* is not that window
            first, second = rows[0], rows[1]
            m2 = ctx_msgid(second["ctx"])
            c2 = claim_of.get((par, m2))
            # did the second planner ask, after its own claim, while the first set was not durable yet?
            asked = [d for (cx, d, what, arg) in getattr(h.w, "read_marks", [])
                     if what == "synthetic_children" and arg == par and ctx_msgid(cx) == m2 and ctx_handler(cx) == "StartStage"]
            raced = c2 is not None and any(c2 <= d < first["seq"] for d in asked)
            problems.append(("synthetic-stage-created-twice", f"stage {h.key_of_stage(par)}: its {owner} child '{name}' was created {len(rows)} times "
                                                                f"(two start handlings both planned it"
                                                                + ("; the second planner asked the store after its own claim, before the first set was durable)" if raced else ")"),
                             "synthetic-twice" + (":both-asked-before-either-stored" if raced else "")))
    # 4. each task step once
    for x in check_ledger_unique(h, "C04"):
        problems.append(("task-ran-twice", x["msg"], "task-twice"))
    # 5. tasks per stage: every task of a started top-level stage ran exactly once at quiescence (no jump loops here)
    if run["quiescent"] and run["fs"]["wf_status"] == "SUCCEEDED":
        for ref in prog.order:
            for i, t in enumerate(prog.task_specs(ref)):
                c = run["counts"].get(f"t_{ref}_{i}", 0)
                want = 1 if t["b"] == "ok" else None
                if want is not None and c != want and run["fs"]["stages"].get(ref, {}).get("status") == "SUCCEEDED":
                    problems.append(("task-run-count", f"task t_{ref}_{i} of SUCCEEDED stage {ref} executed {c} times", "task-count"))
    if not run["quiescent"] and run["end"] != "step-cap":
        problems.append(("not-quiescent", f"interleaved run ended '{run['end']}'", "end:" + run["end"]))
    return one_violation("C04", problems, h)


def setup(w: Any, sched: Any, ch: Choices, info: dict[str, Any]) -> None:
    # the claim this check is about is the join stage's: branches (and the root) are claimed before it
    prog = w.program
    n_before = sum(1 for r in prog.order if r == "R" or r.startswith("B"))
    sched.stall_focus = [n_before + 1]


CHECK = WCheck("C04", {}, judge, make_program=make_program, extra_workers=extra_workers, setup=setup,
               nontrivial=lambda run, info: run["stats"]["preemptions"] > 0)
run_one = CHECK.run_one
replay_one = CHECK.replay_one
