"""C18 -- persistent signals are never lost; a suspended stage resumes once per signal.

A stage whose task suspends until a signal arrives (alone, mid-DAG, among several tasks).  One signal --
persistent or transient -- is sent with ``hitl.send_signal`` at a seeded position of the run (before the
stage starts, while it runs, after it suspended); engine D explores delivery orders, lost acks, crash points
(restart + recovery sweep, also while suspended); engine W runs two or three workers at statement level so
that the SignalStage handler races the RunTask that suspends.  Oracle: a SUSPENDED stage stays SUSPENDED (no
ledger entry) until a signal is handled; a persistent signal is observed by exactly one resumed execution
and causes exactly one resume -- never zero, never two; a transient signal handled while the stage is not
SUSPENDED changes nothing durable except its processed mark.
"""
from __future__ import annotations

from typing import Any

from sim.choices import Choices
from sim.oracles import ctx_handler
from sim.programs import Program, task_name

from .common import Exec, absorb, new_outcome, run_w, sample_of, swarm_knobs
from .dflow import DCheck, one_violation

ok = lambda **kw: {"b": "ok", "out": kw}  # noqa: E731


def make_program(ch: Choices, tier: str = "quick") -> Program:
    shape = ch.choice("c18.shape", ["alone", "mid", "multi"])
    sus = {"b": "suspender", "out": {"k0": "s"}}
    if shape == "alone":
        stages = [{"ref": "S", "deps": [], "ctx": {}, "tasks": [sus]}]
    elif shape == "mid":
        stages = [{"ref": "A", "deps": [], "ctx": {}, "tasks": [ok(k1="s")]},
                  {"ref": "S", "deps": ["A"], "ctx": {}, "tasks": [sus]},
                  {"ref": "Z", "deps": ["S"], "ctx": {}, "tasks": [ok()]}]
    else:
        pos = ch.pick("c18.pos", 3)
        tasks = [ok(), ok(), ok()]
        tasks[pos] = sus
        stages = [{"ref": "A", "deps": [], "ctx": {}, "tasks": [ok()]},
                  {"ref": "S", "deps": ["A"], "ctx": {}, "tasks": tasks},
                  {"ref": "Z", "deps": ["S"], "ctx": {}, "tasks": [ok()]}]
    si = next(i for i, t in enumerate(next(s for s in stages if s["ref"] == "S")["tasks"]) if t["b"] == "suspender")
    return Program({"name": "c18-" + shape, "wf_ctx": {}, "stages": stages, "suspender": task_name("S", si)})


def send(w: Any, wf_id: str, persistent: bool, tag: str) -> None:
    from stabilize.hitl import send_signal

    rows = w.hquery("SELECT id FROM stage_executions WHERE execution_id = ? AND ref_id = 'S'", (wf_id,))
    with w.as_client("client-signal"):
        send_signal(w.queue, wf_id, rows[0]["id"], "go", {"tag": tag}, persistent=persistent)
    w.fault("signal_sent:" + ("persistent" if persistent else "transient"))


def setup(ex: Exec, ch: Choices, info: dict[str, Any]) -> None:
    w = ex.world
    persistent = bool(ch.pick("c18.persistent", 2))
    at = ch.pick("c18.at", 45)
    info.update(persistent=persistent, signal_at_step=at, sent=False)
    if ch.flip("c18.crash", 0.35):
        w.crash_at = (ex.eng.client_commits + 1 + ch.pick("crash.k", 90), ch.choice("crash.when", ["before", "after"]))
    sweeps = ch.flip("c18.sweeps", 0.3)
    n = [0]

    def between(eng: Any) -> None:
        if n[0] == at and not info["sent"]:
            send(w, ex.wf_id, persistent, "sig1")
            info["sent"] = True
        if sweeps and n[0] % 7 == 3:
            w.run_sweep()
            w.fault("recovery_sweep")
        n[0] += 1

    ex.eng.between = between
    # if the run drains before step `at`, the engine is quiet with the stage suspended: send then and drain again
    info["late_send"] = lambda: (send(w, ex.wf_id, persistent, "sig1"), info.update(sent=True, late=True))


def judge(prog: Program, ref: Any, run: dict[str, Any], info: dict[str, Any]) -> list[dict[str, Any]]:
    return judge_hist(prog, run, info)


def judge_hist(prog: Program, run: dict[str, Any], info: dict[str, Any]) -> list[dict[str, Any]]:
    if info.get("mode") == "double":
        return judge_double(prog, run, info)
    h = run["h"]
    problems: list[tuple[str, str, str]] = []
    sus = prog.spec["suspender"]
    persistent = info.get("persistent")
    sent = info.get("sent")
    sid = h.ref_to_id.get("S")
    ents = [e for e in h.ledger if e["key"] == sus]
    resumed = [e for e in ents if e["result"] == "suspender:resumed"]
    suspends = [e for e in ents if e["result"] == "suspender:suspend"]
    # stage S timeline
    tl = [(r["seq"], r["old"], r["new"], ctx_handler(r["ctx"])) for r in h.audit
          if r["kind"] == "stage" and r["row_id"] == sid and r["old"] != r["new"]]
    resumes = [x for x in tl if x[1] == "SUSPENDED" and x[2] == "RUNNING"]
    sig_handled = [r for r in h.audit if r["kind"] == "pm_ins" and ctx_handler(r["ctx"]) == "SignalStage"]
    # 1. while SUSPENDED, no execution of the suspending task and no status change except by a signal / cancel
    for (seq, old, new, hd) in tl:
        if old == "SUSPENDED" and hd not in ("SignalStage", "CancelStage"):
            problems.append(("left-suspended-without-signal", f"stage S left SUSPENDED for {new} while handling {hd}", "unsuspended-by:" + hd))
    status_at = lambda q: next((n for (s, o, n, _) in reversed(tl) if s <= q), "NOT_STARTED")  # noqa: E731
    for e in ents:
        if status_at(e["audit_seq"]) == "SUSPENDED":
            problems.append(("ran-while-suspended", f"{sus} executed (ledger #{e['i']}) while stage S was durably SUSPENDED", "ran-suspended"))
            break
    fs = run["fs"]
    final_s = fs["stages"].get("S", {}).get("status")
    if not run["quiescent"]:
        problems.append(("not-quiescent", f"run did not quiesce: {run.get('end') or run['res'].aborted}", "noquiesce"))
        return one_violation("C18", problems, h)
    crashes = len(run.get("crash_marks") or [])
    from sim.oracles import check_ledger_unique

    for x in check_ledger_unique(h, "C18", run.get("crash_marks") or []):
        if sus in x["msg"]:
            problems.append(("suspending-task-step-repeated", x["msg"], "dup-step:" + x["sig"].rsplit(":", 1)[-1]))
            break
    if sent and persistent:
        if not sig_handled:
            problems.append(("signal-never-handled", "the persistent signal was queued but SignalStage never committed", "unhandled"))
        elif len(resumed) == 0:
            if final_s == "SUSPENDED" or fs["wf_status"] not in ("SUCCEEDED",):
                problems.append(("persistent-signal-lost",
                                 f"a persistent signal was sent and handled but the suspended task never resumed: stage S is {final_s}, "
                                 f"workflow {fs['wf_status']}, suspends={len(suspends)}", "lost"))
        elif len(resumed) > 1 + crashes:
            problems.append(("resumed-twice", f"one persistent signal, {len(resumed)} resumed executions ({crashes} crash(es))", "resumed-twice"))
        elif len(resumed) > 1 and not any(any(a["i"] < m <= b["i"] for m in (run.get("crash_marks") or [])) for a, b in zip(resumed, resumed[1:])):
            problems.append(("resumed-twice", f"one persistent signal, {len(resumed)} resumed executions, and no crash lies between them", "resumed-twice-nocrash"))
        if len(resumes) > 1:
            problems.append(("resumed-twice", f"stage S went SUSPENDED->RUNNING {len(resumes)} times for one signal", "resume-transitions"))
        for e in resumed:
            d = (e["ctx"].get("_signal_data") or {}).get("tag")
            if d != "sig1":
                problems.append(("wrong-payload", f"resumed execution saw signal data {e['ctx'].get('_signal_data')!r}", "payload"))
    if sent and not persistent:
        # transient: a resume is legitimate only if S was SUSPENDED when the signal was handled
        for r in sig_handled:
            ci = h.commit_of(r["seq"])
            st = status_at(h.commits[ci].lo if ci is not None else r["seq"] - 1)   # status before the handler's commit
            changed = [x for x in h.audit if h.commit_of(x["seq"]) == h.commit_of(r["seq"]) and x["kind"] in ("stage", "task", "q_ins")
                       and not (x["kind"] == "stage" and x["old"] == x["new"] and False)]
            real = [x for x in changed if not (x["kind"] == "stage" and x["old"] == x["new"] and (x["extra"] or {}).get("v_new") == (x["extra"] or {}).get("v_old"))]
            if st != "SUSPENDED" and any(x["kind"] in ("q_ins",) or (x["kind"] in ("stage", "task") and x["old"] != x["new"]) for x in real):
                problems.append(("transient-signal-had-effect", f"a transient signal handled while S was {st} changed durable state", "transient-effect"))
        if not resumes and resumed:
            problems.append(("resumed-without-resume", "task saw a signal although the stage was never resumed", "phantom"))
    if not sent and resumed:
        problems.append(("resumed-without-signal", "the suspended task resumed although no signal was sent", "no-signal"))
    if not sent and final_s not in ("SUSPENDED", "NOT_STARTED", "CANCELED") and suspends:
        problems.append(("did-not-stay-suspended", f"no signal sent, yet stage S ended {final_s}", "not-suspended"))
    return one_violation("C18", problems, h)


# ---------------------------------------------------------------------------
# two identical persistent signals for a stage that waits for two
# ---------------------------------------------------------------------------
def _run_double(ch: Choices, tier: str) -> tuple[Program, dict[str, Any], dict[str, Any]]:
    """Crash-free engine D: stage S's task suspends until it has been resumed twice; two persistent signals with the *same*
    name and payload are sent at seeded delivery steps (both before S starts, one before / one while it runs or is
    suspended, both after the first suspend, ...).  Each of them must be consumed exactly once: S resumes twice and ends."""
    from .common import run_exec, swarm_opts

    sus = {"b": "suspender", "n": 2, "out": {"k0": "s"}}
    pre = bool(ch.pick("c18.dbl.pre", 2))
    stages = ([{"ref": "A", "deps": [], "ctx": {}, "tasks": [ok(k1="s")]}] if pre else []) + \
             [{"ref": "S", "deps": ["A"] if pre else [], "ctx": {}, "tasks": [sus]},
              {"ref": "Z", "deps": ["S"], "ctx": {}, "tasks": [ok()]}]
    prog = Program({"name": "c18-double", "wf_ctx": {}, "stages": stages, "suspender": task_name("S", 0)})
    knobs = swarm_knobs(ch)
    opts = swarm_opts(ch)
    at1 = ch.pick("c18.dbl.at1", 30)
    at2 = at1 + ch.pick("c18.dbl.gap", 25)
    info: dict[str, Any] = {"engine": "D", "mode": "double", "persistent": True, "sent": 0, "at": [at1, at2]}

    def st(ex: Exec) -> None:
        n = [0]

        def between(eng: Any) -> None:
            for a in (at1, at2):
                if n[0] == a:
                    send(ex.world, ex.wf_id, True, "sig1")      # same name, same payload, two messages
                    info["sent"] += 1
            n[0] += 1

        ex.eng.between = between

    run = run_exec(prog, knobs, ch, opts, setup=st, max_steps=600)
    return prog, run, info


def judge_double(prog: Program, run: dict[str, Any], info: dict[str, Any]) -> list[dict[str, Any]]:
    h = run["h"]
    problems: list[tuple[str, str, str]] = []
    handled = [r for r in h.audit if r["kind"] == "pm_ins" and ctx_handler(r["ctx"]) == "SignalStage"]
    fs = run["fs"]
    final_s = fs["stages"].get("S", {}).get("status")
    ents = [e["result"] for e in h.ledger if e["key"] == prog.spec["suspender"]]
    if run["quiescent"] and info["sent"] == 2 and len({r["row_id"] for r in handled}) >= 2:
        if final_s == "SUSPENDED" or fs["wf_status"] != "SUCCEEDED":
            problems.append(("persistent-signal-lost",
                             f"two persistent signals (same name and payload) were sent and handled, the task that waits for two resumed "
                             f"{sum(1 for x in ents if 'resumed' in x)} time(s): stage S is {final_s}, workflow {fs['wf_status']}; executions {ents}",
                             "lost-one-of-two"))
        elif sum(1 for x in ents if "resumed" in x) != 2:
            problems.append(("resumed-twice", f"two signals, executions {ents}", "double-resume-count"))
    return one_violation("C18", problems, h)


class C18D(DCheck):
    def flow(self, ch: Choices, tier: str):  # type: ignore[no-untyped-def]
        prog, ref, run, info = super().flow(ch, tier)
        return prog, ref, run, info


def _run_d(ch: Choices, tier: str) -> tuple[Program, dict[str, Any], dict[str, Any]]:
    """D/K flavour with a second drain after a late send; 40% of the runs place the crash on a commit of a
    RunTask handling (the suspend / resume steps) found in a signal-free reference run, restart with or without
    lapsing the locks first, and send the signal a few steps after the restart."""
    from sim.engine_d import DOpts

    from .common import run_exec, swarm_opts

    prog = make_program(ch, tier)
    knobs = swarm_knobs(ch)
    opts = swarm_opts(ch)
    info: dict[str, Any] = {"engine": "D"}
    targeted = ch.flip("c18.targeted", 0.4)
    target_commit = None
    if targeted:
        refr = run_exec(prog, knobs, Choices(ch.seed, replay=[]), DOpts(), max_steps=600,
                        post=lambda ex, fs: {"ctx": [c.ctx for c in ex.world.commits], "client": ex.eng.client_commits})
        cands = [i + 1 for i, c in enumerate(refr["post"]["ctx"]) if "|RunTask|" in c]
        if cands:
            target_commit = cands[ch.pick("c18.tc", len(cands))] + ch.pick("c18.tcoff", 3) - 1
            info["targeted_crash_commit"] = target_commit
        opts.lapse_p = ch.choice("c18.lapse", [0.0, 0.3, 0.6])
        opts.reorder_p = ch.choice("c18.reorder", [0.0, 0.5])

    def st(ex: Exec) -> None:
        setup(ex, ch, info)
        if target_commit is not None:
            w = ex.world
            w.crash_at = (max(ex.eng.client_commits + 1, target_commit), ch.choice("c18.tcwhen", ["after", "before"]))
            ex.lapse_first = bool(ch.pick("c18.lapsefirst", 2))  # type: ignore[attr-defined]
            info["lapse_first"] = ex.lapse_first  # type: ignore[attr-defined]
            after = ch.pick("c18.sigafter", 6)
            state = {"crashed_at_step": None, "n": 0}
            inner = ex.eng.between

            def hook(e: Exec) -> None:
                state["crashed_at_step"] = state["n"]

            ex.on_crash_hook = hook  # type: ignore[attr-defined]

            def between(eng: Any) -> None:
                state["n"] += 1
                if state["crashed_at_step"] is not None and not info["sent"] and state["n"] >= state["crashed_at_step"] + after:
                    send(w, ex.wf_id, info["persistent"], "sig1")
                    info["sent"] = True
                    return
                if state["crashed_at_step"] is None and inner is not None and not targeted:
                    inner(eng)

            ex.eng.between = between
        orig_run = ex.run

        def run_twice(max_steps: Any = None, on_crash: Any = None, sweeps: int = 1) -> Any:
            res = orig_run(max_steps=max_steps, on_crash=on_crash, sweeps=sweeps)
            if res.quiescent and not info["sent"] and ch.flip("c18.late", 0.8):
                info["late_send"]()
                ex.eng.res.quiescent = False
                res = orig_run(max_steps=max_steps, on_crash=on_crash, sweeps=sweeps)
            return res

        ex.run = run_twice  # type: ignore[method-assign]

    run = run_exec(prog, knobs, ch, opts, setup=st, max_steps=1500)
    return prog, run, info


def _run_w(ch: Choices, tier: str) -> tuple[Program, dict[str, Any], dict[str, Any]]:
    prog = make_program(ch, tier)
    knobs = swarm_knobs(ch)
    knobs.peer_emulation = bool(ch.pick("k.peer", 2))
    persistent = bool(ch.pick("c18.persistent", 2))
    delay = ch.choice("c18.delay", [0.0, 0.005, 0.02, 0.04, 0.08, 0.15, 0.3])
    # when the signal is sent: after a seeded delay, or at the instant the suspending task's code has run and its
    # result (SUSPENDED) is about to be committed by the other worker - the window in which "is the stage suspended?"
    # and "buffer or deliver?" are decided on different reads
    trigger = ch.choice("c18.trigger", ["time", "time", "on-suspend-exec"])
    info: dict[str, Any] = {"engine": "W", "persistent": persistent, "sent": False, "delay": delay, "trigger": trigger}

    def mk(world: Any) -> Any:
        def body(wk: Any) -> None:
            if trigger == "on-suspend-exec":
                for _ in range(4000):
                    if world.sched.stopping:
                        return
                    if any(e["result"] == "suspender:suspend" for e in world.ledger):
                        break
                    world.sched.sleep(0.0003)
                else:
                    return
                world.fault("signal_at_suspend_exec")
            else:
                world.sched.sleep(delay)
            rows = world.hquery("SELECT id FROM pipeline_executions")
            send(world, rows[0]["id"], persistent, "sig1")
            info["sent"] = True

        return body

    run = run_w(prog, knobs, ch, nworkers=2 + ch.pick("w.n", 2), strategy=ch.choice("w.strategy", ["random", "pct", "random", "stall"]),
                pct_depth=1 + ch.pick("w.depth", 3), extra_workers=[mk])
    return prog, run, info


def _flow(ch: Choices, tier: str) -> tuple[Program, dict[str, Any], dict[str, Any]]:
    if ch.flip("c18.double", 0.12):
        return _run_double(ch, tier)
    if ch.flip("c18.w", 0.35):
        return _run_w(ch, tier)
    return _run_d(ch, tier)


def run_one(seed: int, tier: str) -> dict[str, Any]:
    out = new_outcome()
    ch = Choices(seed)
    prog, run, info = _flow(ch, tier)
    if run.get("errors") and info["engine"] == "W":
        raise RuntimeError("worker error: " + run["errors"][0])
    absorb(out, run, bool(info.get("sent")))
    out["stats"]["engine_" + info["engine"]] = 1
    vs = judge_hist(prog, run, info)
    for v in vs:
        v["replay"] = {"check": "C18", "seed": seed, "trace": ch.trace}
    out["violations"] = vs
    out["samples"].append(sample_of(prog, ch.trace, {"info": {k: v for k, v in info.items() if not callable(v)}}))
    h = run["h"]
    when = "never"
    if info.get("sent"):
        sid = h.ref_to_id.get("S")
        sseq = next((r["seq"] for r in h.audit if r["kind"] == "q_ins" and r["new"] == "SignalStage"), None)
        st = "NOT_STARTED"
        for r in h.audit:
            if sseq is not None and r["seq"] > sseq:
                break
            if r["kind"] == "stage" and r["row_id"] == sid:
                st = r["new"]
        when = "sent-while-" + st
    out["stats"][when] = 1
    return out


def replay_one(rep: dict[str, Any]) -> list[dict[str, Any]]:
    ch = Choices(rep["seed"], replay=rep["trace"])
    prog, run, info = _flow(ch, "quick")
    return judge_hist(prog, run, info)


_ = (C18D, DCheck, judge)
