"""Static metadata of the checks (imported by the driver without loading stabilize)."""
from __future__ import annotations

from typing import Any

COMMON_ASSUMPTIONS = [
    "SQLite's own journal recovery is trusted: the unit of durability is the SQLite transaction",
    "SQLite backend only; TZ=UTC; pre-emption (where used) at SQL statement / sleep / task boundaries",
    "bulkman thread pools and the circuit breaker are replaced by inline pass-through stubs",
    "sampling, not proof: a clean batch is evidence",
]

INFO: dict[str, dict[str, Any]] = {
    "C01": {
        "level": "fault_enumeration",
        "technique": "deterministic simulation: crash-point enumeration with restart/recovery, differential oracle against the uninterrupted run",
        "rule": ("one evaluation = one simulated execution of a seeded program with a process crash injected at a chosen "
                 "worker commit (before/after), restart with all memory dropped, lock expiry, recovery sweep, drain; "
                 "thorough sweeps every commit of each program and adds 2nd/3rd crashes inside recovery/drain. "
                 "distinct = digest of the observed durable history (status changes, queue inserts/deletes, ledger, "
                 "commit shape); non-trivial = the crash actually fired"),
        "budget": {"quick": {"runs": 48, "seconds": 100, "chunk": 3}, "thorough": {"runs": None, "seconds": 1200, "chunk": 2}},
        "assumptions": COMMON_ASSUMPTIONS + ["restart order is the property's: lock expiry, then recovery sweep, then drain"],
        "expected_probes": [],
    },
    "C02": {
        "level": "exploration",
        "technique": "deterministic simulation: seeded delivery schedules (reorder, lost ack, early redelivery) vs. in-order exactly-once reference run",
        "rule": ("one evaluation = one simulated execution of a seeded program; the explored one takes a seeded choice among the "
                 "deliverable queue rows at every step, loses acknowledgements and lapses locks early; oracle = outcome equal to "
                 "the in-order exactly-once run (schedule-independent parts), every (task, iteration, step) executed once, no "
                 "execution after a recorded result, one plan per stage iteration. distinct = digest of the durable history; "
                 "non-trivial = at least one reorder or lost ack actually fired"),
        "budget": {"quick": {"runs": 800, "seconds": 150, "chunk": 10}, "thorough": {"runs": None, "seconds": 1200, "chunk": 10}},
        "assumptions": COMMON_ASSUMPTIONS + ["injected lock waits are capped (300 simulated s per run) so the engine's own wait time-outs are not the observed behaviour"],
    },
    "C03": {
        "level": "exploration",
        "technique": "deterministic simulation: seeded delivery schedules with injected early/late/duplicate StartStage; history oracle over trigger audit",
        "rule": ("one evaluation = one simulated execution of a random DAG (<=7 stages, every join type, failing branches) under a "
                 "seeded delivery order with StartStage messages injected for arbitrary stages; oracle evaluates the join condition on "
                 "the durable upstream statuses at every durable NOT_STARTED->RUNNING change and checks that no task runs in an "
                 "unstarted stage. distinct = durable-history digest; non-trivial = a reorder or an injected StartStage fired"),
        "budget": {"quick": {"runs": 600, "seconds": 120, "chunk": 20}, "thorough": {"runs": None, "seconds": 900, "chunk": 20}},
        "assumptions": COMMON_ASSUMPTIONS,
    },
    "C05": {
        "level": "exploration",
        "technique": "deterministic simulation: seeded delivery schedules; invariant at every quiescent point",
        "rule": ("one evaluation = one simulated execution to quiescence (queue table empty after the clock passed every deliver_at) "
                 "of a generated workflow (failing branches, early joins, synthetic stages, loops) under a seeded delivery order with "
                 "lost acks; oracle = finished-or-waiting invariant, SUCCEEDED => all top-level continuable, TERMINAL stage => failed "
                 "workflow, no RUNNING stage in a finished workflow, empty DLQ. non-trivial = reorder or lost ack fired"),
        "budget": {"quick": {"runs": 800, "seconds": 120, "chunk": 20}, "thorough": {"runs": None, "seconds": 900, "chunk": 20}},
        "assumptions": COMMON_ASSUMPTIONS,
    },
    "C06": {
        "level": "exploration",
        "technique": "deterministic simulation: delivery schedules + crash/restart + cancel; every durable status change (trigger audit) checked against a frozen transition table",
        "rule": ("one evaluation = one simulated execution (mode drawn per run: seeded schedule / crash at a seeded commit with restart "
                 "and recovery / two crashes / cancel request at a seeded step); every durable status change row is checked. "
                 "distinct = durable-history digest; every run is non-trivial (each contains >= 1 durable status change to judge)"),
        "budget": {"quick": {"runs": 800, "seconds": 120, "chunk": 20}, "thorough": {"runs": None, "seconds": 900, "chunk": 20}},
        "assumptions": COMMON_ASSUMPTIONS + ["the frozen table is the pinned commit's VALID_TRANSITIONS; a change of the live table is itself reported"],
    },
    "C10": {
        "level": "exploration",
        "technique": "deterministic simulation: real run_recovery() injected before delivery steps (x1/x2) vs sweep-free run; crash + one sweep vs crash + two sweeps",
        "rule": ("one evaluation = one simulated execution; healthy mode injects the real recovery sweep (once or twice in a row) before "
                 "delivery steps with per-run probability 0.15/0.5/1.0 under a seeded delivery order and compares outcome and per-task "
                 "execution counts with the sweep-free in-order run; crash mode crashes at a seeded commit and compares restart with one "
                 "sweep against restart with two sweeps (same schedule). non-trivial = at least one sweep or crash fired"),
        "budget": {"quick": {"runs": 300, "seconds": 150, "chunk": 10}, "thorough": {"runs": None, "seconds": 900, "chunk": 10}},
        "assumptions": COMMON_ASSUMPTIONS + ["the sweep runs between handler invocations here; sweep concurrent with a handler is exercised by the interleaving engine (C10w workload in C04's engine)"],
    },
    "C17": {
        "level": "exploration",
        "technique": "deterministic simulation: cancel request injected at a seeded delivery step under seeded delivery orders; ledger/audit oracle",
        "rule": ("one evaluation = one simulated execution in which Orchestrator.cancel is called before delivery step k (k seeded, 0..59) "
                 "and the remaining messages, CancelWorkflow included, are delivered in a seeded order with lost acks; oracle: no task "
                 "execution after the commit that recorded CancelWorkflow as processed, unfinished stages end CANCELED, workflow final. "
                 "non-trivial = the cancel was issued and processed while the workflow was unfinished"),
        "budget": {"quick": {"runs": 800, "seconds": 120, "chunk": 20}, "thorough": {"runs": None, "seconds": 900, "chunk": 20}},
        "assumptions": COMMON_ASSUMPTIONS,
    },
    "C14": {
        "level": "exploration",
        "technique": "deterministic simulation: transient-failure counts 0..beyond the limit x progress x task position x delivery order (reorder, lost ack) with simulated back-off time",
        "rule": ("one evaluation = one simulated execution of a stage whose task raises TransientError k times (k in 0,1,2,3,5,8,9,10,11,13,inf; "
                 "with/without context_update; first/middle/last of 1-3 tasks; optional stages before/after; continue-on-failure) or polls n "
                 "times, under a seeded delivery order; oracle: strictly increasing progress, success below the limit, <= 11 executions then "
                 "TERMINAL at the limit, retries queued later than the failure. non-trivial = at least one failed attempt or RUNNING poll"),
        "budget": {"quick": {"runs": 600, "seconds": 120, "chunk": 15}, "thorough": {"runs": None, "seconds": 900, "chunk": 15}},
        "assumptions": COMMON_ASSUMPTIONS + ["documented limit = 10 attempts (README / error.py); 10 and 11 executions are both accepted"],
    },
    "C15": {
        "level": "exploration",
        "technique": "deterministic simulation: loop shapes x requested iterations x max-jumps x delivery order, judged by a reference model of the loop",
        "rule": ("one evaluation = one simulated execution of a loop program (self loop / 2-4 stage cycle / loop next to a side branch with "
                 "fan-in / forward jump over a diamond), requested iterations in {0,1,2,limit-1,limit,limit+1,limit+2}, max-jumps in "
                 "{unset,0,1,3} on workflow or stage, under a seeded delivery order with lost acks; oracle = model: jumps = min(requested, "
                 "limit), TERMINAL beyond the limit, per-iteration run counts, bypassed stages SKIPPED and never run. non-trivial = at "
                 "least one JumpToStage was queued"),
        "budget": {"quick": {"runs": 600, "seconds": 120, "chunk": 15}, "thorough": {"runs": None, "seconds": 900, "chunk": 15}},
        "assumptions": COMMON_ASSUMPTIONS,
    },
    "C16": {
        "level": "exploration",
        "technique": "deterministic simulation: DAGs with overlapping output keys / loops / reducers under seeded delivery orders and hash seeds; attributable-value oracle on recorded task contexts",
        "rule": ("one evaluation = one simulated execution of a random DAG (<=7 stages, overlapping scalar/list keys, own-context keys, "
                 "OR-splits, jump loops) or of a reducer fan-in (2-4 branches, numeric values, sum/max/min/collect/extend) under a seeded "
                 "delivery order; oracle: each value seen by a task comes from an ancestor, from its current iteration, nearest ancestor on "
                 "path-ordered keys, own context wins, list keys hold the union; reducers equal the model for any completion order. "
                 "non-trivial = more than two task executions recorded"),
        "budget": {"quick": {"runs": 800, "seconds": 120, "chunk": 20}, "thorough": {"runs": None, "seconds": 900, "chunk": 20}},
        "assumptions": COMMON_ASSUMPTIONS + ["4 PYTHONHASHSEED values per batch (set iteration order feeds the ancestor merge)"],
    },
    "C04": {
        "level": "exploration",
        "engine": "W",
        "technique": "deterministic simulation: 2-3 workers as baton-passed threads pre-empted at every SQL statement/commit over real SQLite locking; seeded random-walk and PCT schedules",
        "rule": ("one evaluation = one simulated execution of a fan-in workflow (2-3 branches into AND/DISCRIMINATOR/N_OF_M/OR join, stage "
                 "behind the join, optional synthetic stages / builder-built tasks) handled by 2-3 interleaved workers; schedule = seeded "
                 "random walk or PCT (1-3 priority change points); oracle on the durable history: one start, one plan, one trigger per "
                 "upstream, each task step once. distinct = durable-history digest; non-trivial = at least one pre-emption of a ready worker"),
        "budget": {"quick": {"runs": 640, "seconds": 150, "chunk": 20}, "thorough": {"runs": None, "seconds": 1200, "chunk": 20}},
        "assumptions": COMMON_ASSUMPTIONS + ["sampling instead of exhaustive enumeration under a pre-emption bound (the property text asks for the latter): PCT gives a per-run probability bound only"],
        "expected_probes": ["lock_wait"],
    },
    "C11": {
        "level": "exploration",
        "engine": "W",
        "technique": "deterministic simulation: statement-level interleaving of 2-3 workers starting sibling stages of one mutex / deferred-choice group, retention sweep as an extra actor",
        "rule": ("one evaluation = one simulated execution of 2-4 sibling stages sharing a mutex key or a deferred-choice group, handled by "
                 "2-3 interleaved workers (random walk / PCT) plus, in 60% of runs, a retention-sweep actor; oracle: <=1 RUNNING stage per "
                 "mutex key at every commit boundary, every waiter eventually runs, exactly one choice winner and CANCELED losers, no claim "
                 "of a live execution deleted. non-trivial = at least one pre-emption"),
        "budget": {"quick": {"runs": 480, "seconds": 150, "chunk": 10}, "thorough": {"runs": None, "seconds": 1200, "chunk": 10}},
        "assumptions": COMMON_ASSUMPTIONS,
        "expected_probes": ["lock_wait"],
    },
    "C07": {
        "level": "exploration",
        "engine": "W",
        "technique": "deterministic simulation: statement-level interleaving of 2-3 read-modify-write writers on one stage (plain and transactional store API) with a version/lost-update reference; plus engine-level racing pairs",
        "rule": ("one evaluation = either (S, 60%) 2-3 writers x 2-5 read-modify-write operations on one stage through store.store_stage / "
                 "store.transaction().store_stage (with and without expected_phase), retrying on ConcurrencyError 0/1/3 times, interleaved "
                 "at SQL statement level, judged by version accounting + presence of every successfully saved change + absence of given-up "
                 "ones; or (E) a workflow in which upstream completions race on a first-of/quorum join's tracking context, or a CancelStage "
                 "races task completion. non-trivial = at least one ConcurrencyError was raised (S) / one pre-emption (E)"),
        "budget": {"quick": {"runs": 640, "seconds": 150, "chunk": 16}, "thorough": {"runs": None, "seconds": 1200, "chunk": 16}},
        "assumptions": COMMON_ASSUMPTIONS + ["a writer that gives up after ConcurrencyError issues no further statement; its connection is closed when the writer ends (process exit), rolling back whatever it left open"],
        "expected_probes": ["concurrency_error", "lock_wait"],
    },
    "C08": {
        "level": "exploration",
        "engine": "W",
        "technique": "deterministic simulation: seeded queue-operation sequences by 1-3 interleaved actors with crash points and injected I/O errors, judged against a reference queue model built from the trigger audit",
        "rule": ("one evaluation = 1-3 actors x 4-13 queue operations (push/push-delayed/push-in-transaction/poll/ack/reschedule/extend/"
                 "advance-clock/failing handler via process_one/DLQ sweep/move_to_dlq/replay_dlq) interleaved at SQL statement level, "
                 "lock_duration in {2,5,60}s, queue max_attempts in {3,10}, 30% with a crash at a seeded commit, 15% with an injected I/O "
                 "error at a seeded commit, 12% a dead-letter race (one message at its attempt limit; its holder's ack / move / reschedule and two "
                 "sweeps resume at the same simulated instant), followed by a fault-free drain; oracles: exclusivity, conservation, fidelity, at-least-once. "
                 "non-trivial = at least one message was pushed and delivered during the operation phase"),
        "budget": {"quick": {"runs": 1200, "seconds": 120, "chunk": 40}, "thorough": {"runs": None, "seconds": 900, "chunk": 20}},
        "assumptions": COMMON_ASSUMPTIONS + ["the lock comparison in SQL truncates to whole seconds; the exclusivity oracle uses the same granularity"],
        "expected_probes": ["lock_wait"],
    },
    "C09": {
        "level": "exploration",
        "technique": "deterministic simulation: redelivery of durably-processed messages after bloom reset / forced rotation / clean restart / crash restart, negative-cache option off and on; handler-invocation oracle",
        "rule": ("one evaluation = one simulated execution with 15-50% of acknowledgements lost (each message up to twice, locks lapsed early), "
                 "bloom capacity in {150,10,6} (small values force rotation), dedup_trust_negative_cache in {off,on}, seeded bloom resets and "
                 "clean process restarts between steps, 30% with a crash; oracle: no handler invocation for a message id once its "
                 "processed_messages row is durable; filter never forgets an id before reset(). non-trivial = at least one lost ack fired"),
        "budget": {"quick": {"runs": 600, "seconds": 120, "chunk": 20}, "thorough": {"runs": None, "seconds": 900, "chunk": 20}},
        "assumptions": COMMON_ASSUMPTIONS + ["dedup_trust_negative_cache=on is exercised in single-writer runs only (its documented precondition)"],
    },
    "C18": {
        "level": "exploration",
        "engine": "D+K+W",
        "technique": "deterministic simulation: signal sent at every position of the run x delivery order x crash/restart/recovery (engine D/K) and 2-3 statement-level interleaved workers racing SignalStage against the suspending RunTask (engine W)",
        "rule": ("one evaluation = one simulated execution of a workflow with a suspending stage (alone / mid-DAG / among 3 tasks) and one "
                 "signal (persistent or transient) sent via hitl.send_signal before delivery step k (k seeded 0..44, or after the engine "
                 "went quiet), 65% under engine D (reorder, lost ack, 35% with a crash + restart + recovery, 30% with periodic sweeps), 35% "
                 "under engine W (sender is a third actor with a seeded delay); oracle: stays SUSPENDED until a signal is handled, exactly "
                 "one resume and one resumed execution per persistent signal, correct payload, transient signal without effect unless "
                 "SUSPENDED. non-trivial = the signal was actually sent"),
        "budget": {"quick": {"runs": 800, "seconds": 150, "chunk": 20}, "thorough": {"runs": None, "seconds": 1200, "chunk": 20}},
        "assumptions": COMMON_ASSUMPTIONS,
    },
    "C12": {
        "level": "exploration",
        "technique": "deterministic simulation: event-sourced runs under seeded delivery schedules; replay vs store, prefix vs truncated-log replay (SAVEPOINT), snapshot vs full replay",
        "rule": ("one evaluation = one crash-free simulated execution with SqliteEventStore in the same database under a seeded delivery "
                 "order; at quiescence the real EventReplayer is compared with the store (workflow, stages and tasks last changed by a regular "
                 "handler), up to 5 seeded prefix lengths are checked against a replay of the truncated log and up to 3 seeded snapshot "
                 "positions against the full replay. non-trivial = the workflow's log holds more than 3 events"),
        "budget": {"quick": {"runs": 600, "seconds": 120, "chunk": 15}, "thorough": {"runs": None, "seconds": 900, "chunk": 15}},
        "assumptions": COMMON_ASSUMPTIONS + ["prefixes and snapshot positions are sampled per run (5 and 3), not all of them"],
    },
    "C13": {
        "level": "fault_enumeration",
        "engine": "K+W",
        "technique": "deterministic simulation: crash points, injected I/O errors right after the event append, and interleaved workers, with the event store in the same database; same-commit oracle over the trigger audit",
        "rule": ("one evaluation = one simulated execution with event sourcing in the same SQLite file: 40% crash at a seeded commit "
                 "(30% of those with a second crash), 40% an injected disk I/O error on the statement or commit that follows the n-th "
                 "INSERT INTO events (n seeded 1..30), 20% two or three statement-level interleaved workers; oracle: completion events of "
                 "CompleteTask/CompleteStage and the status change they describe are in the same commit, both directions; the bus "
                 "subscriber only sees durable events; sequence numbers increase. non-trivial = the crash / injected error fired or the run "
                 "was interleaved"),
        "budget": {"quick": {"runs": 800, "seconds": 150, "chunk": 20}, "thorough": {"runs": None, "seconds": 1200, "chunk": 10}},
        "assumptions": COMMON_ASSUMPTIONS + ["crash points are sampled per program here (the exhaustive per-program sweep is C01's); the unit of atomicity is the SQLite transaction"],
    },
}
