"""Static metadata of the checks (imported by the driver without loading stabilize)."""
from __future__ import annotations

from typing import Any

COMMON_ASSUMPTIONS = [
    "SQLite's own journal recovery is trusted: the unit of durability is the SQLite transaction",
    "SQLite backend only; TZ=UTC; pre-emption (where used) at SQL statement / sleep / task boundaries",
    "bulkman thread pools and the circuit breaker are replaced by inline pass-through stubs",
    "sampling, not proof: a clean batch is evidence",
]

INFO: dict[str, dict[str, Any]] = {
    "C01": {
        "level": "fault_enumeration",
        "technique": "deterministic simulation: crash-point enumeration with restart/recovery, differential oracle against the uninterrupted run",
        "rule": ("one evaluation = one simulated execution of a seeded program with a process crash injected at a chosen "
                 "worker commit (before/after), restart with all memory dropped, lock expiry, recovery sweep, drain; "
                 "thorough sweeps every commit of each program and adds 2nd/3rd crashes inside recovery/drain. "
                 "distinct = digest of the observed durable history (status changes, queue inserts/deletes, ledger, "
                 "commit shape); non-trivial = the crash actually fired"),
        "budget": {"quick": {"runs": 48, "seconds": 170, "chunk": 3}, "thorough": {"runs": None, "seconds": 1200, "chunk": 2}},
        "assumptions": COMMON_ASSUMPTIONS + ["restart order is the property's: lock expiry, then recovery sweep, then drain"],
        "expected_probes": [],
    },
    "C02": {
        "level": "exploration",
        "technique": "deterministic simulation: seeded delivery schedules (reorder, lost ack, early redelivery) vs. in-order exactly-once reference run",
        "rule": ("one evaluation = one simulated execution of a seeded program; the explored one takes a seeded choice among the "
                 "deliverable queue rows at every step, loses acknowledgements and lapses locks early; oracle = outcome equal to "
                 "the in-order exactly-once run (schedule-independent parts), every (task, iteration, step) executed once, no "
                 "execution after a recorded result, one plan per stage iteration. distinct = digest of the durable history; "
                 "non-trivial = at least one reorder or lost ack actually fired"),
        "budget": {"quick": {"runs": 320, "seconds": 150, "chunk": 10}, "thorough": {"runs": None, "seconds": 1200, "chunk": 10}},
        "assumptions": COMMON_ASSUMPTIONS + ["injected lock waits are capped (300 simulated s per run) so the engine's own wait time-outs are not the observed behaviour"],
    },
    "C03": {
        "level": "exploration",
        "technique": "deterministic simulation: seeded delivery schedules with injected early/late/duplicate StartStage; history oracle over trigger audit",
        "rule": ("one evaluation = one simulated execution of a random DAG (<=7 stages, every join type, failing branches) under a "
                 "seeded delivery order with StartStage messages injected for arbitrary stages; oracle evaluates the join condition on "
                 "the durable upstream statuses at every durable NOT_STARTED->RUNNING change and checks that no task runs in an "
                 "unstarted stage. distinct = durable-history digest; non-trivial = a reorder or an injected StartStage fired"),
        "budget": {"quick": {"runs": 400, "seconds": 120, "chunk": 20}, "thorough": {"runs": None, "seconds": 900, "chunk": 20}},
        "assumptions": COMMON_ASSUMPTIONS,
    },
    "C05": {
        "level": "exploration",
        "technique": "deterministic simulation: seeded delivery schedules; invariant at every quiescent point",
        "rule": ("one evaluation = one simulated execution to quiescence (queue table empty after the clock passed every deliver_at) "
                 "of a generated workflow (failing branches, early joins, synthetic stages, loops) under a seeded delivery order with "
                 "lost acks; oracle = finished-or-waiting invariant, SUCCEEDED => all top-level continuable, TERMINAL stage => failed "
                 "workflow, no RUNNING stage in a finished workflow, empty DLQ. non-trivial = reorder or lost ack fired"),
        "budget": {"quick": {"runs": 400, "seconds": 120, "chunk": 20}, "thorough": {"runs": None, "seconds": 900, "chunk": 20}},
        "assumptions": COMMON_ASSUMPTIONS,
    },
}
