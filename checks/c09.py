"""C09 -- a message whose handling committed is never handled again, even after restart.

Engine D/K: acknowledgements are lost at a high rate so that messages whose processed record is durable are
delivered again -- after nothing, after a bloom ``reset()``, after forced rotation (tiny filter capacity),
after a process restart (all memory dropped, clean or by crash), with ``dedup_trust_negative_cache`` off and
on (on only here, where the process is the store's single writer, which is that option's documented
precondition).  Oracle: once a message id has a durable ``processed_messages`` row the wrapped handler's
invocation count for that id never grows and the ledger gains no entry from it.  The filter half ("never
reports an id it has been told about as new") is asserted on every id of the run before each step.
"""
from __future__ import annotations

from typing import Any

from sim.choices import Choices

from .common import Exec
from .dflow import DCheck, one_violation

PROFILE = {
    "max_stages": 5, "joins": ["AND", "AND", "DISCRIMINATOR"],
    "behaviours": {"ok": 10, "fail_terminal": 1, "fail_continue": 1, "poller": 2, "transient": 2},
    "synth_p": 0.15, "loop_p": 0.1,
}


def setup(ex: Exec, ch: Choices, info: dict[str, Any]) -> None:
    from stabilize.queue.dedup import get_deduplicator

    w = ex.world
    ex.eng.o.lost_ack_p = ch.choice("c09.lost", [0.3, 0.5, 0.15])
    ex.eng.o.max_lost_acks_per_msg = 2
    ex.eng.o.lapse_p = 0.5
    ex.eng.o.max_injected_delay_s = 1e9 if w.knobs.lock_duration_s <= 5 else 600.0
    act_p = ch.choice("c09.act", [0.05, 0.15])
    info["stats"] = {"bloom_resets": 0, "restarts": 0, "filter_checks": 0, "crash": 0}
    if ch.flip("c09.crash", 0.3):
        w.crash_at = (ex.eng.client_commits + 1 + ch.pick("crash.k", 120), ch.choice("crash.when", ["before", "after"]))
    if ch.flip("c09.busy", 0.35):
        # one to three commits fail with "database is locked" (busy timeout) without any crash: the handler's own commit,
        # or the processor's follow-up processed-mark / ack commit after the handler's effects are already durable
        for _ in range(1 + ch.pick("c09.busy.n", 3)):
            w.io_fault_commits[ex.eng.client_commits + 1 + ch.pick("c09.busy.k", 150)] = "database is locked"
    told: set[str] = set()
    info["filter_violation"] = None

    def instrument() -> None:
        d = get_deduplicator()
        if getattr(d, "_sim_wrapped", False):
            return
        told.clear()      # a new filter object (process restart): it has been told nothing yet
        orig_mark, orig_reset, orig_hydrate = d.mark_seen, d.reset, d.hydrate

        def mark(mid: str) -> None:
            orig_mark(mid)
            told.add(mid)

        def reset() -> None:
            orig_reset()
            told.clear()

        def hydrate(ids: Any) -> int:
            ids = list(ids)
            n = orig_hydrate(ids)
            told.update(ids)
            return n

        d.mark_seen, d.reset, d.hydrate = mark, reset, hydrate  # type: ignore[method-assign]
        d._sim_wrapped = True  # type: ignore[attr-defined]

    def between(eng: Any) -> None:
        instrument()
        d = get_deduplicator()
        for mid in told:
            info["stats"]["filter_checks"] += 1
            if not d.maybe_seen(mid):
                info["filter_violation"] = mid
        if ch.flip("c09.action", act_p):
            a = ch.choice("c09.which", ["reset", "restart", "reset"])
            if a == "reset":
                d.reset()
                w.fault("bloom_reset")
                info["stats"]["bloom_resets"] += 1
            else:
                told.clear()
                w.delivery = None
                w.boot()          # clean process restart: all memory dropped, same database
                eng._patch_ack()
                w.fault("process_restart")
                info["stats"]["restarts"] += 1

    ex.eng.between = between


def judge(prog: Any, ref: Any, run: dict[str, Any], info: dict[str, Any]) -> list[dict[str, Any]]:
    h = run["h"]
    problems: list[tuple[str, str, str]] = []
    first_pm: dict[str, int] = {}
    for r in h.audit:
        if r["kind"] == "pm_ins" and r["row_id"] not in first_pm:
            first_pm[r["row_id"]] = r["seq"]
    for ent in run["handler_log"]:
        inc, typ, mid, cc, dseq = ent
        s = first_pm.get(mid)
        if s is not None and dseq >= s:
            problems.append(("handled-again", f"{typ} message {mid} was handled again (incarnation {inc}) although its processed record "
                             f"was durable since audit seq {s}", "rehandled:" + typ))
            break
    if info.get("filter_violation"):
        problems.append(("filter-forgot-id", f"bloom filter reported id {info['filter_violation']} as new after it was told about it", "filter"))
    return one_violation("C09", problems, h)


class C09Check(DCheck):
    def flow(self, ch: Choices, tier: str):  # type: ignore[no-untyped-def]
        trust = bool(ch.pick("c09.trust", 2))
        self.knob_over = {"dedup_trust_negative": trust, "bloom_capacity": ch.choice("c09.bloom", [150, 10, 6])}
        return super().flow(ch, tier)


CHECK = C09Check("C09", PROFILE, judge, setup=setup, need_ref=False, reorder=True, lost_ack=False,
                 nontrivial=lambda run, info: sum(1 for n in run["handler_calls"].values() if n >= 1) > 0 and run["faults"].get("lost_ack", 0) > 0)
CHECK.free_budget = 2500
run_one = CHECK.run_one
replay_one = CHECK.replay_one
