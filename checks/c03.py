"""C03 -- a stage never runs before its dependencies allow it.

Engine D over random DAGs (every join type, failing and succeeding branches) with reordered
delivery and injected early / late / duplicate StartStage messages (what a peer worker, a recovery
sweep or several upstream completions may legitimately produce).  Oracle: pure history check --
at the audit position where a stage durably leaves NOT_STARTED for RUNNING the join condition over
the *durable* upstream statuses must hold (claims that consumed a durable jump bypass exempt), and
no task executes while its stage is durably NOT_STARTED.
"""
from __future__ import annotations

from typing import Any

from sim.choices import Choices
from sim.oracles import check_join_at_claim

from .common import Exec
from .dflow import DCheck, one_violation

PROFILE = {
    "max_stages": 7, "shapes": ["random", "random", "fan", "diamond", "diamond2", "side"],
    "joins": ["AND", "OR", "DISCRIMINATOR", "N_OF_M", "AND"],
    "behaviours": {"ok": 10, "fail_terminal": 3, "fail_continue": 2, "poller": 2, "transient": 1, "exc": 1},
    "or_split_p": 0.3, "loop_p": 0.15, "synth_p": 0.1, "cof_p": 0.2, "disabled_p": 0.1,
}


def setup(ex: Exec, ch: Choices, info: dict[str, Any]) -> None:
    from stabilize.queue.messages import StartStage

    p = ch.choice("inj.p", [0.0, 0.1, 0.3])
    info["inject_p"] = p
    info["stats"] = {"injected_startstage": 0}
    w = ex.world

    def between(eng: Any) -> None:
        if p and info["stats"]["injected_startstage"] < 8 and ch.flip("inj", p):
            rows = w.hquery("SELECT id, ref_id FROM stage_executions WHERE execution_id = ? ORDER BY id", (ex.wf_id,))
            if rows:
                r = rows[ch.pick("inj.stage", len(rows))]
                with w.as_client("inject"):
                    w.queue.push(StartStage(execution_type="PIPELINE", execution_id=ex.wf_id, stage_id=r["id"]))
                w.fault("injected_startstage")
                info["stats"]["injected_startstage"] += 1

    ex.eng.between = between


def judge(prog: Any, ref: Any, run: dict[str, Any], info: dict[str, Any]) -> list[dict[str, Any]]:
    vs = check_join_at_claim(run["h"], prog)
    return one_violation("C03", [(v["cls"], v["msg"], v["sig"].split(":", 1)[1]) for v in vs[:3]], run["h"])


CHECK = DCheck("C03", PROFILE, judge, setup=setup, need_ref=False,
               nontrivial=lambda run, info: (run["faults"].get("reorder", 0) + run["faults"].get("injected_startstage", 0)) > 0)
CHECK.w_share = 0.25
run_one = CHECK.run_one
replay_one = CHECK.replay_one
_ = one_violation
