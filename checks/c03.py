"""C03 -- a stage never runs before its dependencies allow it.

Engine D over random DAGs (every join type, failing and succeeding branches) with reordered
delivery and injected early / late / duplicate StartStage messages (what a peer worker, a recovery
sweep or several upstream completions may legitimately produce).  Oracle: pure history check --
at the audit position where a stage durably leaves NOT_STARTED for RUNNING the join condition over
the *durable* upstream statuses must hold (claims that consumed a durable jump bypass exempt), and
no task executes while its stage is durably NOT_STARTED.
"""
from __future__ import annotations

from typing import Any

from sim.choices import Choices
from sim.oracles import check_join_at_claim

from .common import Exec
from .dflow import DCheck, one_violation

PROFILE = {
    "max_stages": 7, "shapes": ["random", "random", "fan", "diamond", "diamond2", "side"],
    "joins": ["AND", "OR", "DISCRIMINATOR", "N_OF_M", "AND"],
    "behaviours": {"ok": 10, "fail_terminal": 3, "fail_continue": 2, "poller": 2, "transient": 1, "exc": 1},
    "or_split_p": 0.3, "loop_p": 0.15, "synth_p": 0.1, "cof_p": 0.2, "disabled_p": 0.1,
}


def setup(ex: Exec, ch: Choices, info: dict[str, Any]) -> None:
    from stabilize.queue.messages import StartStage

    p = ch.choice("inj.p", [0.0, 0.1, 0.3])
    info["inject_p"] = p
    info["stats"] = {"injected_startstage": 0}
    w = ex.world

    def between(eng: Any) -> None:
        if p and info["stats"]["injected_startstage"] < 8 and ch.flip("inj", p):
            rows = w.hquery("SELECT id, ref_id FROM stage_executions WHERE execution_id = ? ORDER BY id", (ex.wf_id,))
            if rows:
                r = rows[ch.pick("inj.stage", len(rows))]
                with w.as_client("inject"):
                    w.queue.push(StartStage(execution_type="PIPELINE", execution_id=ex.wf_id, stage_id=r["id"]))
                w.fault("injected_startstage")
                info["stats"]["injected_startstage"] += 1

    ex.eng.between = between


def judge(prog: Any, ref: Any, run: dict[str, Any], info: dict[str, Any]) -> list[dict[str, Any]]:
    vs = check_join_at_claim(run["h"], prog)
    return one_violation("C03", [(v["cls"], v["msg"], v["sig"].split(":", 1)[1]) for v in vs[:3]], run["h"])


def make_program(ch: Choices, tier: str) -> Any:
    """Mostly the generic family; 15% a focused shape in which a StartStage for a stage inside a jump's re-armed set is
    in flight at about the time the jump commits (T -> M.. -> X ; T -> S which jumps back to T ; Z waits for X and S):
    with two workers the StartStage handler has read "upstream done" when the jump re-arms upstream *and* X's own row."""
    from sim.programs import Program, gen_program

    if ch.flip("c03.quorum", 0.15):
        # quorum / first-of join over 3-4 branches of different length, some of which halt: the join must count
        # continuable upstreams only, at whatever moment a StartStage for it is handled
        nb = 3 + ch.pick("c03.q.nb", 2)
        join = ch.choice("c03.q.join", ["N_OF_M", "N_OF_M", "DISCRIMINATOR"])
        stages_q: list[dict[str, Any]] = [{"ref": "R", "deps": [], "ctx": {}, "tasks": [{"b": "ok", "out": {}}]}]
        brs = []
        for i in range(nb):
            r = f"B{i}"
            brs.append(r)
            kind = ch.choice("c03.q.kind", ["ok", "ok", "fail_terminal", "poller", "fail_continue"])
            t: dict[str, Any] = {"b": kind, "out": {}} if kind != "poller" else {"b": "poller", "n": 1 + ch.pick("c03.q.polls", 3), "out": {}}
            if kind == "fail_terminal":
                t = {"b": "fail_terminal"}
            pre = [{"b": "ok", "out": {}} for _ in range(ch.pick("c03.q.pre", 3))]
            stages_q.append({"ref": r, "deps": ["R"], "ctx": {}, "tasks": pre + [t]})
        j: dict[str, Any] = {"ref": "J", "deps": brs, "ctx": {}, "join": join, "tasks": [{"b": "ok", "out": {}}]}
        if join == "N_OF_M":
            j["thr"] = 2 + ch.pick("c03.q.thr", nb - 2)
        stages_q.append(j)
        stages_q.append({"ref": "Z", "deps": ["J"], "ctx": {}, "tasks": [{"b": "ok", "out": {}}]})
        return Program({"name": "c03-quorum", "wf_ctx": {}, "stages": stages_q})
    if ch.flip("c03.loopfanin", 0.1):
        # the jumping stage is itself a fan-in inside its loop: T -> {A, B} -> S, S jumps back to T; in the next iteration
        # the first branch to finish sends StartStage(S) while the other still runs
        okt = lambda: {"b": "ok", "out": {}}  # noqa: E731
        stages_l: list[dict[str, Any]] = [{"ref": "T", "deps": [], "ctx": {}, "tasks": [okt()]}]
        for r in ("A", "B"):
            ts = [okt() for _ in range(1 + ch.pick("c03.lf.nt", 3))]
            if ch.flip("c03.lf.poll", 0.3):
                ts[0] = {"b": "poller", "n": 1 + ch.pick("c03.lf.polls", 2), "out": {}}
            stages_l.append({"ref": r, "deps": ["T"], "ctx": {}, "tasks": ts})
        stages_l.append({"ref": "S", "deps": ["A", "B"], "ctx": {}, "join": ch.choice("c03.lf.join", ["AND", "AND", "N_OF_M"]),
                         "tasks": [{"b": "jumper", "target": "T", "n": 1 + ch.pick("c03.lf.n", 2), "out": {}}]})
        if stages_l[-1]["join"] == "N_OF_M":
            stages_l[-1]["thr"] = 2
        stages_l.append({"ref": "Z", "deps": ["S"], "ctx": {}, "tasks": [okt()]})
        return Program({"name": "c03-loopfanin", "wf_ctx": {}, "stages": stages_l})
    if not ch.flip("c03.jumprace", 0.2):
        return gen_program(ch, PROFILE)
    ok = lambda **kw: {"b": "ok", "out": kw}  # noqa: E731
    nm = 1 + ch.pick("c03.jr.m", 2)
    stages: list[dict[str, Any]] = [{"ref": "T", "deps": [], "ctx": {}, "tasks": [ok(k0="s")]}]
    prev = "T"
    for i in range(nm):
        r = f"M{i}"
        stages.append({"ref": r, "deps": [prev], "ctx": {}, "tasks": [ok() for _ in range(1 + ch.pick("c03.jr.mt", 2))]})
        prev = r
    stages.append({"ref": "X", "deps": [prev], "ctx": {}, "tasks": [ok(k1="s")]})
    pre = [ok() for _ in range(ch.pick("c03.jr.st", 4))]
    stages.append({"ref": "S", "deps": ["T"], "ctx": {}, "tasks": pre + [{"b": "jumper", "target": "T", "n": 1 + ch.pick("c03.jr.n", 2), "out": {}}]})
    stages.append({"ref": "Z", "deps": ["X", "S"], "ctx": {}, "tasks": [ok()]})
    return Program({"name": "c03-jumprace", "wf_ctx": {}, "stages": stages, "force_w": True})


CHECK = DCheck("C03", PROFILE, judge, make_program=make_program, setup=setup, need_ref=False,
               nontrivial=lambda run, info: (run["faults"].get("reorder", 0) + run["faults"].get("injected_startstage", 0)) > 0)
CHECK.w_share = 0.25
run_one = CHECK.run_one
replay_one = CHECK.replay_one
_ = one_violation
