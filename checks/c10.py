"""C10 -- recovery sweeps: harmless on healthy workflows, idempotent after a crash.

(a) Engine D: the real ``QueueProcessor.run_recovery()`` is injected (once or twice in a row) before
delivery steps of a healthy run -- before *every* step in thorough, with a seeded probability in quick --
and the outcome / execution ledger are compared with the sweep-free run of the same program.
(b) Engine K: after the same crash, "one sweep" and "two sweeps in a row" must end in the same outcome
and ledger.
"""
from __future__ import annotations

from typing import Any

from sim.choices import Choices
from sim.engine_d import DOpts
from sim.oracles import check_ledger_unique

from .common import Exec, compare_outcome, count_racy, racy_sets, run_exec, task_kind
from .dflow import DCheck, one_violation

PROFILE = {
    "max_stages": 6, "joins": ["AND", "AND", "DISCRIMINATOR", "N_OF_M"],
    "behaviours": {"ok": 10, "fail_terminal": 1, "fail_continue": 1, "poller": 2, "transient": 2, "exc": 1},
    "synth_p": 0.35, "loop_p": 0.15, "or_split_p": 0.1, "builder_tasks_p": 0.2,
}


def setup(ex: Exec, ch: Choices, info: dict[str, Any]) -> None:
    if info.get("reference"):
        return
    w = ex.world
    mode = ch.choice("c10.mode", ["healthy", "healthy", "crash"])
    info["mode"] = mode
    info["stats"] = {"sweeps": 0, "sweep_requeued": 0}
    if mode == "healthy":
        # sweep positions: up to three delivery steps of this run, each with one or two sweeps in a row
        horizon = max(4, int(info.get("ref_steps", 40)))
        positions = {ch.pick("sweep.at", horizon): 1 + ch.pick("sweep.n", 2) for _ in range(1 + ch.pick("sweep.k", 3))}
        # every third healthy run sweeps before *every* delivery step (the windows that matter are one step wide:
        # between StartStage(parent) and StartStage(before-stage), between a claim and the first StartTask, ...)
        # (a window of 24 consecutive steps: every sweep may add a StartStage for a waiting stage, which re-queues
        # itself while it waits, so sweeping at every step of a whole run grows the queue quadratically)
        placement = ch.pick("sweep.every", 3)       # 0: seeded positions, 1: window of consecutive steps, 2: after message types
        every = placement == 1
        w0 = ch.pick("sweep.from", horizon) if every else 0
        # placement 2: a sweep right after every handling of a seeded subset of message types (at most 40 per run) -
        # the one-step-wide windows open right after a StartStage / CompleteStage / ContinueParentStage / JumpToStage
        after_types: set[str] = set()
        if placement == 2:
            for t in ("StartStage", "CompleteStage", "ContinueParentStage", "StartTask", "CompleteTask", "RunTask", "JumpToStage",
                      "SkipStage"):
                if ch.flip("sweep.after." + t, 0.4):
                    after_types.add(t)
            if not after_types:
                after_types.add("StartStage")
        info["sweep_positions"] = (f"every step in [{w0},{w0 + 24})" if every else
                                   "after " + ",".join(sorted(after_types)) if placement == 2 else
                                   {str(k): v for k, v in positions.items()})
        step = [0]
        seen_log = [0]

        def between(eng: Any) -> None:
            if placement == 2:
                new = w.handler_log[seen_log[0]:]
                seen_log[0] = len(w.handler_log)
                n = 1 if info["stats"]["sweeps"] < 40 and any(x[1] in after_types for x in new) else 0
            else:
                n = (1 if w0 <= step[0] < w0 + 24 else 0) if every else positions.get(step[0], 0)
            step[0] += 1
            for _ in range(n):
                prev = w.ctx.get(0, ("idle", ""))
                w.ctx[0] = ("recovery", "")
                try:
                    rs = w.run_sweep()
                finally:
                    w.ctx[0] = prev
                info["stats"]["sweeps"] += 1
                info["stats"]["sweep_requeued"] += sum(getattr(r, "stages_requeued", 0) for r in rs)
                w.fault("recovery_sweep")

        ex.eng.between = between
    else:
        w.crash_at = (ex.eng.client_commits + 1 + ch.pick("crash.k", 120), ch.choice("crash.when", ["before", "after"]))
        info["sweeps"] = 1
        info["crash"] = list(w.crash_at)


def _stage_of(prog: Any, task: str) -> str:
    parts = task.split("_")
    return parts[1] if len(parts) >= 3 else ""


def judge(prog: Any, ref: Any, run: dict[str, Any], info: dict[str, Any]) -> list[dict[str, Any]]:
    problems: list[tuple[str, str, str]] = []
    if info.get("mode") == "crash":
        return judge_crash(prog, ref, run, info)
    final_wf = run["fs"]["wf_status"] in ("SUCCEEDED", "TERMINAL", "CANCELED", "FAILED_CONTINUE", "STOPPED")
    if not run["quiescent"] and not final_wf:
        problems.append(("does-not-complete", f"with sweeps injected the run did not quiesce: {run['res'].aborted}", "noquiesce"))
    else:
        # (a finished workflow with wait-retry messages still circulating when the step budget ends - a late StartStage for
        # a first-of join that fired long ago is re-polled up to max_stage_wait_retries times, and every sweep may add
        # another - has its outcome; it is compared like any other)
        for c, m in compare_outcome(prog, ref, run):
            problems.append((c.split(":")[0], m, c))
        status_racy, _ = racy_sets(prog, ref["fs"])
        cr = count_racy(prog)
        if not status_racy:
            diff = {t: (ref["counts"].get(t, 0), run["counts"].get(t, 0))
                    for t in set(ref["counts"]) | set(run["counts"])
                    if run["counts"].get(t, 0) != ref["counts"].get(t, 0)
                    and task_kind(prog, t) not in ("poller", "transient") and _stage_of(prog, t) not in cr}
            if diff:
                problems.append(("execution-count-differs", f"task executions (sweep-free, with sweeps): {diff}", "exec-count"))
    for x in check_ledger_unique(run["h"], "C10"):
        problems.append(("step-executed-twice", x["msg"], "dup-exec"))
    if info.get("engine") != "W":
        # (with interleaved workers the sweep's check and push are not atomic - KF-C10-sweep-races-with-planning; a sweep
        # that runs between two deliveries of a single worker has no such excuse)
        from sim.oracles import recovery_duplicates

        for x in recovery_duplicates(run["h"])[:1]:
            problems.append(("sweep-duplicated-pending-message",
                             f"the sweep queued {x['queued']} for task {x['task']} although a live {x['already']} message for it was already "
                             f"queued: a second chain of executions for one task", "dup-message"))
    return one_violation("C10", problems, run["h"], ref["h"] if ref else None, prog=prog, fs=run["fs"])


def judge_crash(prog: Any, ref: Any, run: dict[str, Any], info: dict[str, Any]) -> list[dict[str, Any]]:
    """run = crash + ONE sweep; compare with the same crash + TWO sweeps."""
    two = info.get("_two")
    if two is None or not run["h"].w.crashes if False else two is None:
        return []
    problems: list[tuple[str, str, str]] = []
    if run["quiescent"] != two["quiescent"]:
        problems.append(("sweep-twice-differs", f"quiescent once={run['quiescent']} twice={two['quiescent']}", "twice:quiescence"))
    elif run["quiescent"]:
        a, b = run["fs"], two["fs"]
        status_racy, _ = racy_sets(prog, ref["fs"])
        if a["wf_status"] != b["wf_status"]:
            problems.append(("sweep-twice-differs", f"workflow {a['wf_status']} after one sweep, {b['wf_status']} after two", "twice:wf"))
        d = {k: ((a["stages"].get(k) or {}).get("status"), (b["stages"].get(k) or {}).get("status"))
             for k in set(a["stages"]) | set(b["stages"]) if k.split("/")[0] not in status_racy
             and (a["stages"].get(k) or {}).get("status") != (b["stages"].get(k) or {}).get("status")}
        if d:
            kinds = ",".join(sorted({f"{x}->{y}" for x, y in d.values()}))
            problems.append(("sweep-twice-differs", f"stage statuses (one sweep, two sweeps): {d}", "twice:stages:" + kinds))
        dd = {t: (run["counts"].get(t, 0), two["counts"].get(t, 0)) for t in set(run["counts"]) | set(two["counts"])
              if run["counts"].get(t, 0) != two["counts"].get(t, 0) and task_kind(prog, t) not in ("poller", "transient")
              and _stage_of(prog, t) not in count_racy(prog)}
        if not status_racy and dd:
            problems.append(("sweep-twice-differs", f"task executions (one sweep, two sweeps): {dd}", "twice:ledger"))
    from sim.oracles import stale_applications

    hh = run["h"] if stale_applications(run["h"]) else two["h"]
    return one_violation("C10", problems, hh)


class C10Check(DCheck):
    def flow(self, ch: Choices, tier: str):  # type: ignore[no-untyped-def]
        prog, ref, run, info = super().flow(ch, tier)
        if info.get("mode") == "crash" and ref is not None and ref["quiescent"]:
            from .common import knobs_from_dict

            knobs = knobs_from_dict(info["knobs"])
            # identical execution (same setup picks, same schedule picks) except: two sweeps after the crash
            ch2 = Choices(ch.seed, replay=ch.trace[info["trace_pos_run"]:])
            info2: dict[str, Any] = {}

            def st(ex: Exec) -> None:
                setup(ex, ch2, info2)
                ex.sweeps = 2  # type: ignore[attr-defined]

            two = run_exec(prog, knobs, ch2, DOpts(**{k: v for k, v in info["opts"].items()}),
                           setup=st, max_steps=info["budget"])
            info["_two"] = two
        return prog, ref, run, info


def w_sweeper(ch: Choices, info: dict[str, Any]) -> list[Any]:
    """Engine W: an extra actor runs the real recovery sweep while the workers handle messages."""
    n = 1 + ch.pick("w.sweeps", 3)
    gap = ch.choice("w.sweepgap", [0.0, 0.01, 0.03, 0.08])
    info["mode"] = "w-sweeper"
    info["stats"] = {"sweeps": 0, "sweep_requeued": 0}

    def mk(world: Any) -> Any:
        def body(wk: Any) -> None:
            for _ in range(n):
                world.sched.sleep(gap)
                if world.sched.stopping:
                    return
                world.ctx[wk.wid] = ("recovery", "")
                world.run_sweep()
                world.fault("recovery_sweep")
                info["stats"]["sweeps"] += 1

        return body

    return [mk]


CHECK = C10Check("C10", PROFILE, judge, setup=setup, need_ref=True, ref_setup=True,
                 nontrivial=lambda run, info: run["faults"].get("recovery_sweep", 0) + run["faults"].get("crash", 0) > 0)
CHECK.w_share = 0.25
# every sweep may add one StartStage per waiting stage, and each of those re-queues itself for up to
# max_stage_wait_retries rounds: dense sweep placements need room to drain
CHECK.extra_budget = 3000
CHECK.w_extra = w_sweeper
run_one = CHECK.run_one
replay_one = CHECK.replay_one
