"""C16 -- a stage sees exactly its ancestors' outputs, the nearest ancestor winning.

Engine D over random DAGs with overlapping scalar and list output keys, own-context keys, jump loops
whose upstream outputs change per iteration, reducer joins with numeric branch values; every delivery
order; several hash seeds (set iteration order is behaviour here).  Every produced value is
"<stage>.<task>#<iteration>#<key>", so each value a task sees is attributable to one producer and
iteration.  Oracle on the context recorded at each task execution (DESIGN.md C16).
"""
from __future__ import annotations

from typing import Any

from sim.choices import Choices
from sim.programs import LIST_KEYS, SCALAR_KEYS, Program, gen_program, task_name

from .dflow import DCheck, one_violation

PROFILE = {
    "max_stages": 7, "shapes": ["random", "random", "diamond", "diamond2", "side", "fan", "chain"],
    "joins": ["AND"], "behaviours": {"ok": 10, "poller": 1, "transient": 1},
    "synth_p": 0.0, "loop_p": 0.3, "or_split_p": 0.15, "outputs_p": 0.9, "multi_task_p": 0.35,
    "disabled_p": 0.05, "builder_tasks_p": 0.1, "max_jumps": [None], "once_p": 0.2,
}


def make_program(ch: Choices, tier: str) -> Program:
    if ch.flip("c16.reducers", 0.25):
        k = 2 + ch.pick("c16.nb", 3)
        red = ch.choice("c16.red", ["sum", "max", "min", "collect", "extend"])
        stages: list[dict[str, Any]] = [{"ref": "A", "deps": [], "ctx": {}, "tasks": [{"b": "ok", "out": {}}]}]
        vals = []
        for i in range(k):
            v = 1 + ch.pick("c16.val", 9)
            vals.append(v)
            t = {"b": ch.choice("c16.bb", ["ok", "ok", "poller"]), "out": {}, "num": {"score": v}, "n": 1 + ch.pick("c16.pn", 2)}
            stages.append({"ref": f"B{i}", "deps": ["A"], "ctx": {}, "tasks": [t]})
        stages.append({"ref": "J", "deps": [f"B{i}" for i in range(k)], "ctx": {}, "reducers": {"score": red},
                       "tasks": [{"b": "ok", "out": {}}]})
        return Program({"name": "c16-red", "wf_ctx": {}, "stages": stages, "reducer": {"name": red, "values": vals}})
    return gen_program(ch, PROFILE)


def parse(v: Any) -> tuple[str, int, str] | None:
    if not isinstance(v, str) or v.count("#") != 2:
        return None
    a, it, k = v.split("#")
    try:
        return a.split(".")[0], int(it), k, int(a.split(".")[1])  # type: ignore[return-value]
    except (ValueError, IndexError):
        return None


def judge(prog: Program, ref: Any, run: dict[str, Any], info: dict[str, Any]) -> list[dict[str, Any]]:
    h = run["h"]
    problems: list[tuple[str, str, str]] = []
    if "reducer" in prog.spec:
        return judge_reducer(prog, run)
    # latest completed iteration of each producer task (from the ledger itself)
    # value of key k produced by stage P in its latest *successful* execution before time t
    prod_specs: dict[str, dict[str, list[int]]] = {}   # stage -> key -> [task idx producing it]
    for ref_ in prog.order:
        for i, t in enumerate(prog.task_specs(ref_)):
            for k in (t.get("out") or {}):
                prod_specs.setdefault(ref_, {}).setdefault(k, []).append(i)
    final_ok = {"ok", "poller:done", "transient:ok", "jumper:pass"}

    def produced(e: dict[str, Any]) -> bool:
        r = e["result"]
        return r in final_ok or any(r.startswith(p + ":") for p in ("poller:done", "transient:ok", "jumper:pass"))

    latest: dict[tuple[str, int], int] = {}   # (stage, task idx) -> iteration of the latest producing execution
    produced_log: dict[tuple[str, int], list[tuple[int, int, str]]] = {}   # -> [(audit seq at execution, iteration, stage id)]
    claims: dict[str, list[int]] = {}
    for r in h.audit:
        if r["kind"] == "stage" and r["old"] == "NOT_STARTED" and r["new"] == "RUNNING":
            claims.setdefault(r["row_id"], []).append(r["seq"])

    # when did each producing execution's result become durable (its task left RUNNING for a complete status)?
    task_done: dict[tuple[str, str], list[int]] = {}
    rearms: dict[str, list[int]] = {}
    for r in h.audit:
        if r["kind"] == "task" and r["old"] == "RUNNING" and r["new"] in ("SUCCEEDED", "FAILED_CONTINUE"):
            ti = h.task_info.get(r["row_id"]) or {}
            task_done.setdefault((ti.get("stage", ""), ti.get("name", "")), []).append(r["seq"])
        elif r["kind"] == "stage" and r["new"] == "NOT_STARTED" and r["old"] != "NOT_STARTED":
            rearms.setdefault(r["row_id"], []).append(r["seq"])

    def producer_state(e: dict[str, Any], P: str, pidx: int) -> tuple[int, bool]:
        """(iteration of (P, pidx)'s latest execution whose result was durable before the consuming stage started,
        whether P was re-armed - outputs cleared - after that and before the consumer started)."""
        cs = [c for c in claims.get(e["stage_id"], []) if c <= e["audit_seq"]]
        plan_seq = max(cs) if cs else e["audit_seq"]
        best: tuple[int, int] | None = None
        plog = produced_log.get((P, pidx), [])
        for j, (q, it, sid) in enumerate(plog):
            nxt = plog[j + 1][0] if j + 1 < len(plog) else 1 << 60
            # the completion that belongs to this execution: after it started, before the task's next execution
            dones = [d for d in task_done.get((sid, task_name(P, pidx)), []) if q < d < nxt]
            if not dones or dones[0] >= plan_seq:
                continue
            if best is None or dones[0] > best[0]:
                best = (dones[0], it)
        if best is None:
            return -1, False
        sid_p = h.ref_to_id.get(P, "")
        cleared = any(best[0] < r < plan_seq for r in rearms.get(sid_p, []))
        return best[1], cleared

    def latest_at_plan(e: dict[str, Any], P: str, pidx: int) -> int:
        return producer_state(e, P, pidx)[0]

    def produces_at(e: dict[str, Any], P: str, idx: int, k: str) -> bool:
        """Did (P, idx)'s latest execution completed before the consuming stage started produce key k, and is it
        still in P's outputs (P not re-armed since)?"""
        t = prog.task_specs(P)[idx]
        if k not in (t.get("out") or {}):
            return False
        it0, cleared = producer_state(e, P, idx)
        return it0 >= 0 and not cleared and not (t.get("once") and it0 > 0)

    held: dict[tuple[str, str], list[tuple[int, Any]]] = {}    # (stage id, key) -> [(arm, value seen)]
    for e in h.ledger:
        sref = e["stage_ref"]
        if sref in prog.stages:
            anc = prog.ancestors(sref)
            ctx = e["ctx"]
            for k_ in SCALAR_KEYS:
                if ctx.get(k_) is not None:
                    held.setdefault((e["stage_id"], k_), []).append((int(e.get("arm") or 0), ctx.get(k_)))
            # ancestors that had not finished when this stage started (possible behind an OR-split skip or a first-of
            # join: the stage's direct upstream is done, a transitive one still runs): whether their outputs are in
            # by the time a task looks is a race - they are left out of every expectation below
            cs_ = [c for c in claims.get(e["stage_id"], []) if c <= e["audit_seq"]]
            plan_ = max(cs_) if cs_ else e["audit_seq"]
            late = {a for a in anc if h.stage_status_at(h.ref_to_id.get(a, ""), plan_ + 1) not in
                    ("SUCCEEDED", "FAILED_CONTINUE", "SKIPPED", "TERMINAL", "CANCELED", "STOPPED")}
            own = prog.stages[sref].get("ctx") or {}
            # re-arm clears outputs: only producers that completed since the last re-arm of *their* stage count
            for k in SCALAR_KEYS:
                v = ctx.get(k)
                if v is None:
                    continue
                if k in own:
                    if v != own[k]:
                        problems.append(("own-context-overridden", f"{e['key']}: own context key {k}={own[k]!r} was replaced by {v!r}", "own-overridden"))
                    continue
                p = parse(v)
                if p is None:
                    continue
                P, it, _, pidx = p  # type: ignore[misc]
                if P not in anc and P != sref:
                    problems.append(("foreign-output-visible", f"{e['key']} sees {k}={v!r} produced by {P}, which is not an ancestor of {sref}", "non-ancestor"))
                    continue
                if P == sref or P in late:
                    continue
                # current iteration: the producer's latest producing execution so far
                cur, cleared = producer_state(e, P, pidx)   # a stage's view is fixed when it starts; iterations are per producing task
                if (cur >= 0 and it < cur) or (cleared and it <= cur):
                    # "baked": this very stage already saw (and, through planning, persisted into its own context) the
                    # same value in an earlier run of itself; "fresh": it never held that value before
                    # "baked": this stage was already started (planned) once before its current start - planning
                    # persisted the then-current ancestor values into its own context, which now win;
                    # "fresh": first start of this stage, the stale value can only come from the ancestors' outputs
                    baked = len([c for c in claims.get(e["stage_id"], []) if c <= e["audit_seq"]]) >= 2
                    problems.append(("stale-iteration-value", f"{e['key']} sees {k}={v!r} although {P} has since produced iteration {cur}"
                                     + (" (the stage was started before: value carried over in its own context)" if baked else ""),
                                     "stale-iteration:" + ("baked" if baked else "fresh")))
                # nearest ancestor wins on path-ordered keys
                producers = [a for a in anc if a not in late and k in prod_specs.get(a, {}) and any(produces_at(e, a, i, k) for i in prod_specs[a][k])]
                maximal = [a for a in producers if not any(a in prog.ancestors(b) for b in producers if b != a)]
                if maximal and P not in maximal and not ((cur >= 0 and it < cur) or (cleared and it <= cur)):   # a stale value is reported as such above
                    # the same "baked" defect in another guise: the stage held exactly this value in an earlier run of
                    # itself (then legitimately: the nearer producer had been skipped / had not produced yet); planning
                    # persisted it into the stage's own context, where it now beats the nearer producer's fresh value
                    held_before = any(a < int(e.get("arm") or 0) and vv == v for a, vv in held.get((e["stage_id"], k), []))
                    if held_before:
                        problems.append(("stale-iteration-value", f"{e['key']} sees {k}={v!r} from {P} although nearer producer(s) {sorted(maximal)} "
                                         f"have produced it since (the stage was started before: value carried over in its own context)",
                                         "stale-iteration:baked-farther"))
                    else:
                        problems.append(("farther-ancestor-wins", f"{e['key']} sees {k} from {P} although nearer producer(s) {sorted(maximal)} exist", "not-nearest"))
            # every key produced by a completed ancestor is present
            for a in sorted(anc - late):
                for k, idxs in prod_specs.get(a, {}).items():
                    if k in own:
                        continue
                    if any(produces_at(e, a, i, k) for i in idxs) and k not in ctx:
                        problems.append(("ancestor-output-missing", f"{e['key']} does not see key {k} produced by ancestor {a}", "missing"))
            for k in LIST_KEYS:
                got = ctx.get(k)
                if got is None:
                    continue
                for v in got:
                    p = parse(v)
                    if p and p[0] not in anc and p[0] != sref:
                        problems.append(("foreign-output-visible", f"{e['key']} sees list item {v!r} of non-ancestor {p[0]}", "non-ancestor-list"))
                want = set()
                for a in anc - late:
                    # inside one stage a later task's value replaces an earlier task's (outputs.update): the
                    # stage contributes the value of its last completed producer of the key
                    done = [(i, latest_at_plan(e, a, i)) for i in prod_specs.get(a, {}).get(k, []) if produces_at(e, a, i, k)]
                    if done:
                        i, itn = done[-1]
                        want.add(f"{a}.{i}#{itn}#{k}")
                missing = want - set(got)
                if missing:
                    problems.append(("list-item-missing", f"{e['key']} list {k} lacks {sorted(missing)} (has {got})", "list-missing"))
        if e["key"].startswith("t_"):
            parts = e["key"].split("_")
            if len(parts) == 3 and parts[1] in prog.stages and parts[2].isdigit():
                if produced(e):
                    latest[(parts[1], int(parts[2]))] = int(e.get("it") or 0)
                produced_log.setdefault((parts[1], int(parts[2])), []).append((e["audit_seq"], int(e.get("it") or 0), e["stage_id"]))
        if len(problems) > 6:
            break
    # de-duplicate by signature tail, keep first of each
    seen: set[str] = set()
    uniq = []
    for p in problems:
        if p[2] not in seen:
            seen.add(p[2])
            uniq.append(p)
    out: list[dict[str, Any]] = []
    for p in uniq:
        out += one_violation("C16", [p], h)
    return out


def judge_reducer(prog: Program, run: dict[str, Any]) -> list[dict[str, Any]]:
    r = prog.spec["reducer"]
    vals = list(r["values"])
    ents = [e for e in run["ledger"] if e["key"] == task_name("J", 0)]
    problems: list[tuple[str, str, str]] = []
    if not ents:
        if run["quiescent"] and run["fs"]["wf_status"] == "SUCCEEDED":
            problems.append(("join-never-ran", "reducer join never executed", "join-missing"))
        return one_violation("C16", problems, run["h"])
    got = ents[-1]["ctx"].get("score")
    name = r["name"]
    want: Any
    if name == "sum":
        want, ok_ = sum(vals), got == sum(vals)
    elif name == "max":
        want, ok_ = max(vals), got == max(vals)
    elif name == "min":
        want, ok_ = min(vals), got == min(vals)
    else:
        want, ok_ = sorted(vals), isinstance(got, list) and sorted(got) == sorted(vals)
    if not ok_:
        problems.append(("reducer-result-wrong", f"reducer {name} over branch values {vals} gave {got!r}, expected {want!r}", "reducer:" + name))
    return one_violation("C16", problems, run["h"])


CHECK = DCheck("C16", PROFILE, judge, make_program=make_program, need_ref=False,
               nontrivial=lambda run, info: len(run["ledger"]) > 2)
run_one = CHECK.run_one
replay_one = CHECK.replay_one
