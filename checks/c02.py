"""C02 -- redelivery and reordering never change the result or repeat finished work.

Engine D, crash-free: seeded program x seeded delivery schedule (any deliverable row may be
delivered next; acknowledgements are lost and the message redelivered when its lock lapses, or
earlier).  Judged against the in-order exactly-once run of the same program.
"""
from __future__ import annotations

from typing import Any

from sim.choices import Choices
from sim.engine_d import DOpts
from sim.oracles import check_ledger_unique, check_no_exec_after_result
from sim.programs import Program, gen_program

from .common import (absorb, compare_outcome, new_outcome, ref_unusable, run_exec, sample_of, swarm_knobs, swarm_opts,
                     task_kind)

PROPERTY = "C02"
PROFILE = {
    "behaviours": {"ok": 10, "fail_terminal": 1, "fail_continue": 1, "poller": 2, "transient": 2, "exc": 1},
    "synth_p": 0.2, "loop_p": 0.25, "builder_tasks_p": 0.15,
    "joins": ["AND", "AND", "AND", "DISCRIMINATOR", "N_OF_M", "OR"], "or_split_p": 0.1,
}


def plan_counts(h: Any, prog: Program) -> list[tuple[str, int]]:
    """Per stage and iteration: number of StartStage-handler commits that queued the stage's first work."""
    out = []
    per: dict[str, int] = {}
    import json

    for r in h.audit:
        if r["kind"] == "stage" and r["old"] != r["new"] and r["new"] == "NOT_STARTED":
            k = r["row_id"]
            if per.get(k, 0) > 1:
                out.append((h.key_of_stage(k), per[k]))
            per[k] = 0
        elif r["kind"] == "q_ins" and r["new"] == "StartTask" and "|StartStage|" in (r["ctx"] or ""):
            p = json.loads((r["extra"] or {}).get("payload") or "{}")
            k = p.get("stage_id", "")
            per[k] = per.get(k, 0) + 1
    for k, n in per.items():
        if n > 1:
            out.append((h.key_of_stage(k), n))
    return out


def judge(prog: Program, ref: dict[str, Any], run: dict[str, Any]) -> list[dict[str, Any]]:
    problems: list[tuple[str, str, str]] = []
    if not run["quiescent"]:
        problems.append(("does-not-complete", f"did not quiesce: {run['res'].aborted}", "noquiesce"))
    else:
        for c, m in compare_outcome(prog, ref, run):
            problems.append((c.split(":")[0], m, c))
    for x in check_ledger_unique(run["h"], "C02"):
        problems.append(("step-executed-twice", x["msg"], x["sig"].split(":", 1)[1]))
    for x in check_no_exec_after_result(run["h"], "C02"):
        problems.append(("executed-after-result", x["msg"], "exec-after-result"))
    for k, n in plan_counts(run["h"], prog):
        problems.append(("stage-started-twice", f"stage {k} was planned/started {n} times in one iteration", "planned-twice"))
    # a handler that raised, or a message that ended in the dead-letter queue, is not by itself a C02 violation
    # (e.g. ContinueParentStage for a parent that a halt canceled meanwhile is rejected by the state machine and
    # dead-lettered, the outcome is unchanged); both are counted as probes in run_one
    from .dflow import one_violation

    return one_violation("C02", problems, run["h"], ref["h"], prog=prog, fs=run["fs"])


def _flow(ch: Choices, tier: str) -> tuple[Program, Any, Any, dict[str, Any], dict[str, Any]]:
    prog = gen_program(ch, PROFILE)
    knobs = swarm_knobs(ch)
    opts = swarm_opts(ch)
    if opts.reorder_p == 0 and opts.lost_ack_p == 0:
        opts.reorder_p = 0.5
    ref = run_exec(prog, knobs, Choices(ch.seed, replay=[]), DOpts(), max_steps=3000)
    budget = 12 * ref["steps"] + 100 + 3 * knobs.max_stage_wait_retries
    run = run_exec(prog, knobs, ch, opts, max_steps=budget)
    return prog, knobs, opts, ref, run


def run_one(seed: int, tier: str) -> dict[str, Any]:
    out = new_outcome()
    ch = Choices(seed)
    prog, knobs, opts, ref, run = _flow(ch, tier)
    if ref_unusable(ref, prog):
        out["inconclusive"] += 1
        out["execs"] += 1
        return out
    nontrivial = (run["faults"].get("reorder", 0) + run["faults"].get("lost_ack", 0)) > 0
    absorb(out, ref, False)
    absorb(out, run, nontrivial)
    vs = judge(prog, ref, run)
    for v in vs:
        v["replay"] = {"check": "C02", "seed": seed, "trace": ch.trace}
    out["violations"] = vs
    out["samples"].append(sample_of(prog, ch.trace, {"opts": opts.__dict__, "deliveries": run["res"].deliveries[:30]}))
    for f in prog.features():
        out["stats"]["feature:" + f] = 1
    out["stats"]["runs_with_handler_errors"] = 1 if run["errors"] else 0
    out["stats"]["runs_with_dead_letters"] = 1 if run["fs"]["dlq"] else 0
    out["stats"]["redelivered_messages"] = sum(1 for n in run["handler_calls"].values() if n > 1)
    return out


def replay_one(rep: dict[str, Any]) -> list[dict[str, Any]]:
    ch = Choices(rep["seed"], replay=rep["trace"])
    prog, knobs, opts, ref, run = _flow(ch, "quick")
    if ref_unusable(ref, prog):
        return []
    return judge(prog, ref, run)
