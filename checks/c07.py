"""C07 -- concurrent writers never silently overwrite each other.

(S) Store machine under engine W: 2-3 writers, each a seeded sequence of read-modify-write operations on ONE
stage through the public store API -- ``retrieve_stage``, change (a unique context key, a unique output key,
a unique key in one task's ``task_exception_details``, sometimes the status), then ``store.store_stage``
(plain, commits itself) or ``with store.transaction(): txn.store_stage`` (optionally with
``expected_phase``) -- retried from fresh data on ``ConcurrencyError``; interleaved at SQL statement level.
Oracle: at most one successful save per base version; final version = initial + successful saves; every
change whose save reported success is in the final row (each writer preserves what it read, so a missing
key is a lost update); a save that failed and was not retried left nothing durable; same for the task rows.

(E) Engine-level pairs under engine W: two/three upstream completions updating one first-of / quorum join
stage (its ``_completed_branches`` must end up containing every completed branch); CancelStage racing task
completion (a CANCELED stage has no RUNNING task; a completed stage neither).
"""
from __future__ import annotations

import json
import sqlite3
from typing import Any

from sim.choices import Choices
from sim.oracles import V
from sim.programs import Program

from .common import absorb, new_outcome, run_w, swarm_knobs
from .dflow import one_violation

ok = lambda **kw: {"b": "ok", "out": kw}  # noqa: E731


# ---------------------------------------------------------------------------
# S machine
# ---------------------------------------------------------------------------
def s_machine(ch: Choices) -> dict[str, Any]:
    from sim import seams
    from sim.engine_w import Scheduler
    from sim.oracles import History
    from sim.world import World

    from stabilize.errors import ConcurrencyError
    from stabilize.models.stage import StageExecution
    from stabilize.models.status import WorkflowStatus
    from stabilize.models.task import TaskExecution
    from stabilize.models.workflow import Workflow

    knobs = swarm_knobs(ch)
    nw = 2 + ch.pick("s.nw", 2)
    nops = 2 + ch.pick("s.nops", 4)
    strategy = ch.choice("s.strategy", ["random", "pct", "random"])
    plan: list[list[dict[str, Any]]] = []
    for wi in range(nw):
        ops = []
        for oi in range(nops):
            ops.append({"mode": ch.choice("s.mode", ["plain", "txn", "txn_phase"]),
                        "what": ch.choice("s.what", ["ctx", "out", "task", "ctx+task", "status"]),
                        "retries": ch.choice("s.retries", [3, 3, 0, 1]),
                        "key": f"w{wi}o{oi}"})
        plan.append(ops)
    w = World(ch, knobs, None)
    sched = None
    log: list[dict[str, Any]] = []
    try:
        w.boot()
        t0 = TaskExecution.create(name="t0", implementing_class="x", stage_start=True)
        t1 = TaskExecution.create(name="t1", implementing_class="x", stage_end=True)
        st = StageExecution(ref_id="S", type="x", name="S", context={"base": 1}, tasks=[t0, t1])
        wf = Workflow.create(application="sim", name="s", stages=[st])
        st.execution = wf
        w.store.store(wf)
        sid = st.id
        sched = Scheduler(w, strategy=strategy, pct_depth=1 + ch.pick("s.depth", 3), step_cap=40000)

        def mk(wi: int, ops: list[dict[str, Any]]) -> Any:
            def body(wk: Any) -> None:
                store = w.store
                for op in ops:
                    attempts = 0
                    rec = {"w": wi, "key": op["key"], "mode": op["mode"], "what": op["what"], "ok": False,
                           "tries": [], "error": None}
                    log.append(rec)
                    while True:
                        attempts += 1
                        stage = store.retrieve_stage(sid)
                        base_v = stage.version
                        task = stage.tasks[wi % 2]
                        base_tv = task.version
                        if "ctx" in op["what"]:
                            stage.context[op["key"]] = 1
                        if op["what"] == "out":
                            stage.outputs[op["key"]] = 1
                        if "task" in op["what"]:
                            task.task_exception_details[op["key"]] = 1
                        if op["what"] == "status":
                            stage.context[op["key"]] = 1
                            stage.status = WorkflowStatus.RUNNING if stage.status == WorkflowStatus.NOT_STARTED else stage.status
                        try:
                            if op["mode"] == "plain":
                                store.store_stage(stage)
                            elif op["mode"] == "txn":
                                with store.transaction() as txn:
                                    txn.store_stage(stage)
                            else:
                                phase = stage.status.name if op["what"] != "status" else None
                                with store.transaction() as txn:
                                    txn.store_stage(stage, expected_phase=phase)
                            rec["ok"] = True
                            rec["tries"].append({"base_v": base_v, "base_tv": base_tv, "ok": True})
                            break
                        except sqlite3.OperationalError as e:
                            # busy timeout expired (every writer waited for a lock somebody else held: the scheduler
                            # delivers "database is locked" to one of them).  The caller's save failed without any claim
                            # of success: roll the connection back, as a caller must, and try again or give up.
                            if "locked" not in str(e).lower() and "busy" not in str(e).lower():
                                raise
                            rec["tries"].append({"base_v": base_v, "base_tv": base_tv, "ok": False, "busy": True})
                            w.probe("busy_timeout_in_save")
                            try:
                                store._get_connection().rollback()
                            except Exception:
                                pass
                            if attempts > op["retries"] + 3:
                                rec["error"] = str(e)[:100]
                                break
                        except ConcurrencyError as e:
                            rec["tries"].append({"base_v": base_v, "base_tv": base_tv, "ok": False})
                            w.probe("concurrency_error")
                            if attempts > op["retries"]:
                                rec["error"] = str(e)[:100]
                                # what a caller that gives up does with its connection: nothing. (plain store_stage
                                # leaves the implicit transaction open; the next operation on this connection commits.)
                                break

            return body

        for wi, ops in enumerate(plan):
            sched.add(mk(wi, ops), name=f"writer{wi}")
        sched.start()
        end = sched.run()
        errs = sched.errors()
        stats = {"w_steps": sched.steps, "preemptions": sched.preemptions, "lock_waits": sched.lock_waits,
                 "deadlocks_resolved": sched.deadlocks_resolved}
        sched.stop()
        sched = None
        # writers are gone (their connections closed = uncommitted work rolled back, like a process exit)
        row = w.hquery("SELECT version, context, outputs, status FROM stage_executions WHERE id = ?", (sid,))[0]
        trows = w.hquery("SELECT name, version, task_exception_details FROM task_executions WHERE stage_id = ? ORDER BY id", (sid,))
        h = History(w, wf.id)
        return {"log": log, "end": end, "errors": errs, "stats": stats, "final": dict(row),
                "tasks": [dict(t) for t in trows], "plan": plan, "h": h,
                "digest": json.dumps([[(t["base_v"], t["ok"]) for t in r["tries"]] for r in log]) + str(row["version"]),
                "faults": dict(w.faults_fired), "probes": dict(w.probes), "sim_us": w.clock.us - seams.EPOCH_US}
    finally:
        if sched is not None:
            try:
                sched.stop()
            except Exception:
                pass
        w.close()


def judge_s(r: dict[str, Any]) -> list[dict[str, Any]]:
    problems: list[tuple[str, str, str]] = []
    if r["errors"]:
        raise RuntimeError("writer crashed: " + r["errors"][0])
    if r["end"] not in ("done", "quiescent"):
        return []
    fin = r["final"]
    ctx = json.loads(fin["context"] or "{}")
    outs = json.loads(fin["outputs"] or "{}")
    tdet = [json.loads(t["task_exception_details"] or "{}") for t in r["tasks"]]
    succ = [(rec, t) for rec in r["log"] for t in rec["tries"] if t["ok"]]
    by_base: dict[int, list[str]] = {}
    for rec, t in succ:
        by_base.setdefault(t["base_v"], []).append(rec["key"])
    dup = {b: ks for b, ks in by_base.items() if len(ks) > 1}
    if dup:
        problems.append(("two-saves-on-one-version", f"saves based on the same stage version both succeeded: {dup}", "dup-base"))
    if fin["version"] != len(succ):
        problems.append(("version-accounting", f"final stage version {fin['version']} != {len(succ)} successful saves", "version"))
    for rec in r["log"]:
        key, what = rec["key"], rec["what"]
        present = {"ctx": key in ctx, "out": key in outs, "task": any(key in d for d in tdet)}
        if rec["ok"]:
            if ("ctx" in what or what == "status") and not present["ctx"]:
                problems.append(("lost-update", f"{key} ({rec['mode']}): context change reported saved is missing from the final row", "lost:ctx:" + rec["mode"]))
            if what == "out" and not present["out"]:
                problems.append(("lost-update", f"{key} ({rec['mode']}): output change reported saved is missing", "lost:out:" + rec["mode"]))
            if "task" in what and not present["task"]:
                problems.append(("lost-update", f"{key} ({rec['mode']}): task change reported saved is missing", "lost:task:" + rec["mode"]))
        else:
            if any(present.values()):
                problems.append(("failed-save-became-durable", f"{key} ({rec['mode']}): the save raised ConcurrencyError and was given up, "
                                 f"yet its change is durable ({present})", "halfwrite:" + rec["mode"]))
    return one_violation("C07", problems)


# ---------------------------------------------------------------------------
# E pairs
# ---------------------------------------------------------------------------
def make_pair_program(ch: Choices) -> Program:
    kind = ch.choice("e.kind", ["join", "join", "cancel"])
    if kind == "join":
        nb = 2 + ch.pick("e.nb", 2)
        join = ch.choice("e.join", ["DISCRIMINATOR", "N_OF_M"])
        stages: list[dict[str, Any]] = [{"ref": f"B{i}", "deps": [], "ctx": {}, "tasks": [ok()]} for i in range(nb)]
        j: dict[str, Any] = {"ref": "J", "deps": [f"B{i}" for i in range(nb)], "ctx": {}, "join": join, "tasks": [ok()]}
        if join == "N_OF_M":
            j["thr"] = 1 + ch.pick("e.thr", nb)
        stages.append(j)
        return Program({"name": "c07-join", "wf_ctx": {}, "stages": stages, "kind": kind})
    stages = [{"ref": "A", "deps": [], "ctx": {}, "tasks": [ok(), {"b": "poller", "n": 2, "out": {}}, ok()]},
              {"ref": "Z", "deps": ["A"], "ctx": {}, "tasks": [ok()]}]
    return Program({"name": "c07-cancel", "wf_ctx": {}, "stages": stages, "kind": kind})


def e_pair(ch: Choices) -> tuple[Program, dict[str, Any]]:
    prog = make_pair_program(ch)
    knobs = swarm_knobs(ch)
    knobs.peer_emulation = bool(ch.pick("k.peer", 2))
    extra = None
    if prog.spec["kind"] == "cancel":
        delay = ch.choice("e.cancel_delay", [0.0, 0.01, 0.03, 0.06, 0.1])

        def mk(world: Any) -> Any:
            def body(wk: Any) -> None:
                from stabilize.queue.messages import CancelStage

                world.sched.sleep(delay)
                rows = world.hquery("SELECT id, execution_id FROM stage_executions WHERE ref_id = 'A'")
                if rows:
                    world.ctx[wk.wid] = ("client-cancelstage", "")
                    world.queue.push(CancelStage(execution_type="PIPELINE", execution_id=rows[0]["execution_id"], stage_id=rows[0]["id"]))
                    world.fault("cancelstage_injected")

            return body

        extra = [mk]
    run = run_w(prog, knobs, ch, nworkers=2 + ch.pick("w.n", 2), strategy=ch.choice("w.strategy", ["random", "pct", "random", "stall"]),
                pct_depth=1 + ch.pick("w.depth", 3), extra_workers=extra)
    return prog, run


def judge_e(prog: Program, run: dict[str, Any]) -> list[dict[str, Any]]:
    problems: list[tuple[str, str, str]] = []
    if run["errors"]:
        raise RuntimeError("worker crashed: " + run["errors"][0])
    fs = run["fs"]
    if prog.spec["kind"] == "join" and run["quiescent"]:
        j = fs["stages"].get("J", {})
        done = [r for r in prog.deps("J") if fs["stages"][r]["status"] in ("SUCCEEDED", "FAILED_CONTINUE", "SKIPPED")]
        got = set(j.get("context", {}).get("_completed_branches", []))
        missing = [r for r in done if r not in got]
        if missing:
            problems.append(("join-tracking-lost-update", f"join stage J records completed branches {sorted(got)} but {missing} completed too", "completed-branches"))
    for k, v in fs["stages"].items():
        running = [t for t, s in v["tasks"] if s == "RUNNING"]
        if v["status"] in ("CANCELED", "SUCCEEDED", "TERMINAL", "FAILED_CONTINUE", "SKIPPED") and running and run["quiescent"]:
            problems.append(("task-running-in-finished-stage", f"stage {k} is {v['status']} but tasks {running} are still RUNNING", "running-task:" + v["status"]))
    # version accounting from the audit: every durable stage update bumps the version by exactly one
    for r in run["h"].audit:
        if r["kind"] == "stage":
            e = r["extra"] or {}
            if e.get("v_new") is not None and e.get("v_old") is not None and e["v_new"] != e["v_old"] + 1:
                problems.append(("version-skip", f"stage {run['h'].key_of_stage(r['row_id'])} version {e['v_old']} -> {e['v_new']}", "version-skip"))
                break
    return one_violation("C07", problems, run["h"])


def _flow(ch: Choices) -> tuple[str, Any, list[dict[str, Any]]]:
    if ch.flip("c07.s", 0.6):
        r = s_machine(ch)
        return "S", r, judge_s(r)
    prog, run = e_pair(ch)
    return "E", (prog, run), judge_e(prog, run)


def run_one(seed: int, tier: str) -> dict[str, Any]:
    out = new_outcome()
    ch = Choices(seed)
    kind, r, vs = _flow(ch)
    if kind == "S":
        out["execs"] += 1
        out["sim_us"] += r["sim_us"]
        nt = any(not t["ok"] for rec in r["log"] for t in rec["tries"])
        out["digests"][str(hash(r["digest"]))] = nt
        for k in ("faults", "probes"):
            for a, b in r[k].items():
                out[k][a] = out[k].get(a, 0) + b
        for a, b in r["stats"].items():
            out["stats"]["s_" + a] = out["stats"].get("s_" + a, 0) + b
        out["stats"]["s_runs"] = 1
        out["samples"].append({"machine": "S", "plan": r["plan"], "log": [{k: v for k, v in rec.items()} for rec in r["log"]][:12],
                               "final_version": r["final"]["version"]})
    else:
        prog, run = r
        absorb(out, run, run["stats"]["preemptions"] > 0)
        out["stats"]["e_runs"] = 1
        out["samples"].append({"machine": "E", "program": prog.spec, "w_stats": run["stats"]})
    for v in vs:
        v["replay"] = {"check": "C07", "seed": seed, "trace": ch.trace}
    out["violations"] = vs
    return out


def replay_one(rep: dict[str, Any]) -> list[dict[str, Any]]:
    ch = Choices(rep["seed"], replay=rep["trace"])
    return _flow(ch)[2]


_ = V
