"""Boilerplate for engine-W checks (statement-level interleaving of 2-3 workers)."""
from __future__ import annotations

from typing import Any, Callable

from sim.choices import Choices
from sim.programs import Program, gen_program

from .common import absorb, new_outcome, run_w, sample_of, swarm_knobs


class WCheck:
    def __init__(self, prop: str, profile: dict[str, Any],
                 judge: Callable[[Program, dict[str, Any], dict[str, Any]], list[dict[str, Any]]],
                 make_program: Callable[[Choices, str], Program] | None = None,
                 setup: Callable[[Any, Any, Choices, dict[str, Any]], None] | None = None,
                 extra_workers: Callable[[Choices, dict[str, Any]], list[Any]] | None = None,
                 knob_over: dict[str, Any] | None = None,
                 nontrivial: Callable[[dict[str, Any], dict[str, Any]], bool] | None = None) -> None:
        self.prop = prop
        self.profile = profile
        self.judge = judge
        self.make_program = make_program
        self.setup = setup
        self.extra_workers = extra_workers
        self.knob_over = knob_over or {}
        self.nontrivial = nontrivial

    def flow(self, ch: Choices, tier: str) -> tuple[Program, dict[str, Any], dict[str, Any]]:
        prog = self.make_program(ch, tier) if self.make_program else gen_program(ch, self.profile)
        knobs = swarm_knobs(ch, **self.knob_over)
        knobs.peer_emulation = bool(ch.pick("k.peer", 2))
        nworkers = 2 + ch.pick("w.n", 2)
        strategy = ch.choice("w.strategy", ["random", "pct", "random", "stall"])
        depth = 1 + ch.pick("w.depth", 3)
        info: dict[str, Any] = {"nworkers": nworkers, "strategy": strategy, "pct_depth": depth, "knobs": knobs.to_dict()}
        st = None
        if self.setup is not None:
            st = lambda w, sched: self.setup(w, sched, ch, info)  # noqa: E731
        extra = self.extra_workers(ch, info) if self.extra_workers else None
        run = run_w(prog, knobs, ch, nworkers=nworkers, strategy=strategy, pct_depth=depth, setup=st, extra_workers=extra)
        return prog, run, info

    def run_one(self, seed: int, tier: str) -> dict[str, Any]:
        out = new_outcome()
        ch = Choices(seed)
        prog, run, info = self.flow(ch, tier)
        if run["end"] == "step-cap" or run["errors"]:
            out["inconclusive"] += 1
            out["stats"]["w_inconclusive:" + run["end"]] = 1
            if run["errors"]:
                raise RuntimeError("worker error in engine W: " + run["errors"][0])
        nt = run["stats"].get("preemptions", 0) > 0
        if self.nontrivial is not None:
            nt = self.nontrivial(run, info)
        absorb(out, run, nt)
        vs = self.judge(prog, run, info)
        for v in vs:
            v["replay"] = {"check": self.prop, "seed": seed, "trace": ch.trace}
        out["violations"] = vs
        out["samples"].append(sample_of(prog, ch.trace, {"info": {k: v for k, v in info.items() if k != "knobs" and not callable(v)},
                                                        "w_stats": run["stats"]}))
        for f in prog.features():
            out["stats"]["feature:" + f] = 1
        for k, v in (info.get("stats") or {}).items():
            out["stats"][k] = out["stats"].get(k, 0) + v
        return out

    def replay_one(self, rep: dict[str, Any]) -> list[dict[str, Any]]:
        ch = Choices(rep["seed"], replay=rep["trace"])
        prog, run, info = self.flow(ch, "quick")
        return self.judge(prog, run, info)
