"""C15 -- jump loops are bounded and always terminate.

Engine D over loop shapes (self loop; 2-4 stage cycle; loop inside one branch next to a side branch with a
fan-in behind both; forward jump over a diamond) x requested iterations 0..limit+2 x max-jumps setting
(unset=10, 0, 1, 3; on the workflow or on the stage) x in-order / shuffled delivery.  Oracle = small
reference model of the loop: jumps performed = min(requested, limit); beyond the limit the jumping stage is
TERMINAL, the workflow failed and the run quiesces; per iteration the target and the stages that depend
only on it run exactly once; bypassed stages of a forward jump are SKIPPED and never run.
"""
from __future__ import annotations

from typing import Any

from sim.choices import Choices
from sim.programs import Program, task_name

from .dflow import DCheck, one_violation

ok = lambda **kw: {"b": "ok", "out": kw}  # noqa: E731


def make_program(ch: Choices, tier: str) -> Program:
    shape = ch.choice("c15.shape", ["self", "cycle", "side", "forward", "cycle", "side", "forward", "fanin", "sidein", "twojump"])
    mj: Any = ch.choice("c15.maxj", [None, 0, 1, 3])
    where = ch.choice("c15.mjwhere", ["wf", "stage"])
    limit = 10 if mj is None else mj
    n = ch.choice("c15.n", sorted({0, 1, 2, limit, limit + 1, limit + 2, max(0, limit - 1)}))
    wf_ctx: dict[str, Any] = {}
    sctx: dict[str, Any] = {}
    if mj is not None:
        if where == "wf":
            wf_ctx["_max_jumps"] = mj
        else:
            sctx["_max_jumps"] = mj
    stages: list[dict[str, Any]]
    model: dict[str, Any] = {"shape": shape, "n": n, "limit": limit}
    if shape == "self":
        stages = [{"ref": "A", "deps": [], "ctx": dict(sctx), "tasks": [{"b": "jumper", "target": "A", "n": n, "out": {"k0": "s"}}]},
                  {"ref": "Z", "deps": ["A"], "ctx": {}, "tasks": [ok()]}]
        model.update(src="A", loop=["A"], after=["Z"], once=[])
    elif shape == "cycle":
        ln = 2 + ch.pick("c15.len", 3)
        refs = [chr(ord("A") + i) for i in range(ln)]
        stages = []
        for i, r in enumerate(refs):
            t = [ok(k0="s")] if i < ln - 1 else [{"b": "jumper", "target": refs[0], "n": n, "out": {"k1": "s"}}]
            stages.append({"ref": r, "deps": [refs[i - 1]] if i else [], "ctx": dict(sctx) if i == ln - 1 else {}, "tasks": t})
        stages.append({"ref": "Z", "deps": [refs[-1]], "ctx": {}, "tasks": [ok()]})
        if ch.flip("c15.synth", 0.35):
            # the jump target owns before- (and after-) stages built by its stage builder at every start
            stages[0]["synth"] = {"before": 1 + ch.pick("c15.nb", 2), "after": ch.pick("c15.na", 2), "fail": 0,
                                  "chain": ch.pick("c15.chain", 2)}
        model.update(src=refs[-1], loop=refs, after=["Z"], once=[])
    elif shape == "side":
        # A -> B -> B2 -> D ; A -> C -> D ; B2 jumps back to B.  D waits for both branches.
        stages = [
            {"ref": "A", "deps": [], "ctx": {}, "tasks": [ok(k0="s")]},
            {"ref": "B", "deps": ["A"], "ctx": {}, "tasks": [ok(k1="s")]},
            {"ref": "B2", "deps": ["B"], "ctx": dict(sctx), "tasks": [{"b": "jumper", "target": "B", "n": n, "out": {"k2": "s"}}]},
            {"ref": "C", "deps": ["A"], "ctx": {}, "tasks": [ok(k3="s")]},
            {"ref": "D", "deps": ["B2", "C"], "ctx": {}, "tasks": [ok()]},
        ]
        model.update(src="B2", loop=["B", "B2"], after=["D"], once=["A", "C"])
    elif shape == "sidein":
        # the side branch S depends only on the jump target, so it is part of what every jump re-arms:
        # A -> B (jumps back to A) ; A -> S ; D waits for B and S
        stages = [
            {"ref": "A", "deps": [], "ctx": {}, "tasks": [ok(k0="s")]},
            {"ref": "B", "deps": ["A"], "ctx": dict(sctx), "tasks": [{"b": "jumper", "target": "A", "n": n, "out": {"k1": "s"}}]},
            {"ref": "S", "deps": ["A"], "ctx": {}, "tasks": [ok(k2="s")]},
            {"ref": "D", "deps": ["B", "S"], "ctx": {}, "tasks": [ok()]},
        ]
        model.update(src="B", loop=["A", "B"], after=["D"], once=[], side=["S"])
    elif shape == "twojump":
        # two stages of one cycle both keep jumping back to its start: A -> B -> C, B and C each "always" jump to A.
        # Each of them may redirect only a bounded number of times, so the loop must end (failed) after at most 2 x limit
        # jumps - one jumper must not renew the other's budget
        stages = [
            {"ref": "A", "deps": [], "ctx": {}, "tasks": [ok(k0="s")]},
            {"ref": "B", "deps": ["A"], "ctx": dict(sctx), "tasks": [{"b": "jumper", "target": "A", "n": 99, "alt": 2, "out": {}}]},
            {"ref": "C", "deps": ["B"], "ctx": dict(sctx), "tasks": [{"b": "jumper", "target": "A", "n": 99, "out": {}}]},
            {"ref": "Z", "deps": ["C"], "ctx": {}, "tasks": [ok()]},
        ]
        model.update(src="C", n=99, loop=[], after=["Z"], once=[], twojump=True)
    elif shape == "fanin":
        # the fan-in lies *inside* the loop: A -> B -> D ; A -> C -> D ; D -> E ; E jumps back to B.  C is a side branch
        # outside the re-armed set; whether D re-runs is not fixed by the property, so it is in no list
        stages = [
            {"ref": "A", "deps": [], "ctx": {}, "tasks": [ok(k0="s")]},
            {"ref": "B", "deps": ["A"], "ctx": {}, "tasks": [ok(k1="s")]},
            {"ref": "C", "deps": ["A"], "ctx": {}, "tasks": [ok(k3="s")]},
            {"ref": "D", "deps": ["B", "C"], "ctx": {}, "tasks": [ok()]},
            {"ref": "E", "deps": ["D"], "ctx": dict(sctx), "tasks": [{"b": "jumper", "target": "B", "n": n, "out": {"k2": "s"}}]},
            {"ref": "Z", "deps": ["E"], "ctx": {}, "tasks": [ok()]},
        ]
        model.update(src="E", loop=["B", "E"], after=["Z"], once=["A", "C"])
    else:  # forward jump over a diamond: A -> B,C -> D -> E ; A jumps to E
        stages = [
            {"ref": "A", "deps": [], "ctx": dict(sctx), "tasks": [{"b": "jumper", "target": "E", "n": min(n, 1), "out": {"k0": "s"}}]},
            {"ref": "B", "deps": ["A"], "ctx": {}, "tasks": [ok(k1="s")]},
            {"ref": "C", "deps": ["A"], "ctx": {}, "tasks": [ok(k2="s")]},
            {"ref": "D", "deps": ["B", "C"], "ctx": {}, "tasks": [ok()]},
            {"ref": "E", "deps": ["D"], "ctx": {}, "tasks": [ok()]},
        ]
        model.update(src="A", n=min(n, 1), loop=[], after=[], once=[], bypass=["B", "C", "D"], target="E")
    return Program({"name": "c15-" + shape, "wf_ctx": wf_ctx, "stages": stages, "model": model})


def judge(prog: Program, ref: Any, run: dict[str, Any], info: dict[str, Any]) -> list[dict[str, Any]]:
    m = prog.spec["model"]
    n, L = int(m["n"]), int(m["limit"])
    h = run["h"]
    problems: list[tuple[str, str, str]] = []
    if not run["quiescent"]:
        problems.append(("does-not-terminate", f"loop run did not quiesce: {run['res'].aborted}", "noquiesce"))
        return one_violation("C15", problems, h, prog=prog)
    fs = run["fs"]
    st = {k: v["status"] for k, v in fs["stages"].items()}
    counts = run["counts"]
    if fs["wf_status"] in ("RUNNING", "NOT_STARTED"):
        problems.append(("does-not-terminate", f"queue drained but the workflow is {fs['wf_status']}: {st}", "stuck"))
    jumps_applied = sum(1 for r in h.audit if r["kind"] == "q_ins" and r["new"] == "StartStage" and "|JumpToStage|" in (r["ctx"] or ""))
    exp_jumps = min(n, L)
    exceeded = n > L
    if jumps_applied != exp_jumps and not m.get("twojump"):
        problems.append(("wrong-jump-count", f"{jumps_applied} jumps were performed, expected min(requested {n}, limit {L}) = {exp_jumps}",
                         "jump-count:" + ("more" if jumps_applied > exp_jumps else "fewer")))
    src = m["src"]
    if m.get("twojump"):
        # bounded and terminating is all that is asked of this shape
        if jumps_applied > 2 * L + 1:
            problems.append(("limit-not-enforced", f"{jumps_applied} jumps were performed by two jumping stages whose limit is {L} each", "twojump-unbounded"))
        if fs["wf_status"] != "TERMINAL":
            problems.append(("limit-not-enforced", f"two stages that always jump: the workflow ended {fs['wf_status']}, expected TERMINAL", "twojump-wf"))
        if counts.get(task_name("Z", 0), 0) > 0:
            problems.append(("ran-after-failed-loop", "the stage after the never-ending loop executed", "twojump-after"))
        return one_violation("C15", problems, h, prog=prog)
    if m["shape"] == "forward":
        if n == 0:
            want = {r: "SUCCEEDED" for r in ["A", "B", "C", "D", "E"]}
            wf = "SUCCEEDED"
        elif not exceeded:
            want = {"A": "SUCCEEDED", "B": "SKIPPED", "C": "SKIPPED", "D": "SKIPPED", "E": "SUCCEEDED"}
            wf = "SUCCEEDED"
        else:
            want = {"A": "TERMINAL"}
            wf = "TERMINAL"
        bad = {r: (w, st.get(r)) for r, w in want.items() if st.get(r) != w}
        if bad:
            problems.append(("wrong-final-status", f"stage statuses (expected, actual): {bad}", "fwd-status"))
        if fs["wf_status"] != wf:
            problems.append(("wrong-workflow-status", f"workflow ended {fs['wf_status']}, expected {wf}", "fwd-wf"))
        if n >= 1 and not exceeded:
            ran = [r for r in m["bypass"] if counts.get(task_name(r, 0), 0) > 0]
            if ran:
                problems.append(("bypassed-stage-ran", f"stages bypassed by the forward jump executed: {ran}", "bypass-ran"))
            if counts.get(task_name("E", 0), 0) != 1:
                problems.append(("target-run-count", f"jump target E executed {counts.get(task_name('E', 0), 0)} times", "fwd-target"))
        return one_violation("C15", problems, h, prog=prog)
    # backward / self loops
    iters = exp_jumps + 1            # number of times the loop body is entered
    for r in m["loop"]:
        c = counts.get(task_name(r, 0), 0)
        if c != iters:
            problems.append(("iteration-run-count", f"stage {r} of the loop body executed {c} times over {iters} iteration(s)",
                             "loop-count:" + ("more" if c > iters else "fewer")))
            break
    # synthetic before-/after-stages of a loop stage are part of that stage's run: once per iteration, too
    if not exceeded:
        for r in m["loop"]:
            sy = prog.stages[r].get("synth") or {}
            for kind in ("before", "after"):
                for i in range(int(sy.get(kind, 0) or 0)):
                    c = counts.get(f"t_{r}_{kind}{i}", 0)
                    if c != iters:
                        problems.append(("iteration-run-count", f"{kind}-stage {i} of loop stage {r} executed {c} times over {iters} iteration(s)",
                                         f"synthetic-count:{kind}:" + ("more" if c > iters else "fewer")))
                        break
    for r in m["once"]:
        c = counts.get(task_name(r, 0), 0)
        # when the limit is exceeded the failing loop cancels whatever still runs beside it: 0 or 1 are both fine then
        if c > 1 or (c != 1 and not exceeded):
            problems.append(("outside-loop-rerun", f"stage {r} outside the re-armed region executed {c} times", "once-count"))
            break
    # a re-armed side branch runs beside the jumping stage: with in-order delivery it has started (and its task has run)
    # by the time the jump is handled, so it is re-armed and runs once per iteration like the loop body; under
    # shuffled delivery how far it got when a jump hits is the schedule's choice - only "at least once" is judged then
    in_order = not any(run["faults"].get(k, 0) for k in ("reorder", "lost_ack", "lock_lapse", "stale"))
    for r in m.get("side", []):
        c = counts.get(task_name(r, 0), 0)
        if in_order and not exceeded and c != iters:
            problems.append(("iteration-run-count", f"side branch {r} (depends only on the jump target) executed {c} times over {iters} "
                                                    f"iteration(s) under in-order delivery", "side-count:" + ("more" if c > iters else "fewer")))
        elif (c < 1 and not exceeded) or c > iters:      # (a loop that fails at its limit cancels the side branch wherever it is)
            problems.append(("iteration-run-count", f"side branch {r} executed {c} times over {iters} iteration(s)", "side-count:range"))
    if exceeded:
        if st.get(src) != "TERMINAL":
            problems.append(("limit-not-enforced", f"jump limit {L} exceeded but stage {src} ended {st.get(src)}", "src-not-terminal"))
        if fs["wf_status"] != "TERMINAL":
            problems.append(("limit-not-enforced", f"jump limit {L} exceeded but the workflow ended {fs['wf_status']}", "wf-not-terminal"))
        ran = [r for r in m["after"] if counts.get(task_name(r, 0), 0) > 0]
        if ran:
            problems.append(("ran-after-failed-loop", f"stages after the failed loop executed: {ran}", "after-ran"))
    else:
        bad = {r: st.get(r) for r in m["loop"] + m["after"] + m["once"] + m.get("side", []) if st.get(r) != "SUCCEEDED"}
        if bad:
            problems.append(("wrong-final-status", f"stages not SUCCEEDED after the loop finished: {bad}", "status"))
        if fs["wf_status"] != "SUCCEEDED":
            problems.append(("wrong-workflow-status", f"workflow ended {fs['wf_status']}, expected SUCCEEDED", "wf"))
        for r in m["after"]:
            c = counts.get(task_name(r, 0), 0)
            if c != 1:
                problems.append(("after-loop-run-count", f"stage {r} after the loop executed {c} times", "after-count"))
    return one_violation("C15", problems, h, prog=prog)


CHECK = DCheck("C15", {}, judge, make_program=make_program, need_ref=False,
               nontrivial=lambda run, info: any(r["kind"] == "q_ins" and r["new"] == "JumpToStage" for r in run["h"].audit))
CHECK.free_budget = 1200
CHECK.inorder_share = 0.3      # the property names in-order delivery explicitly; some expectations are exact only there
run_one = CHECK.run_one
replay_one = CHECK.replay_one
