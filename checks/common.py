"""Helpers shared by the per-property checks."""
from __future__ import annotations

import hashlib
import json
from typing import Any, Callable

from sim import seams
from sim.choices import Choices
from sim.engine_d import DOpts, EngineD, final_state, ledger_counts
from sim.oracles import COMPLETE, CONTINUABLE, HALT, History, V
from sim.programs import LIST_KEYS, SCALAR_KEYS, Program, gen_program
from sim.seams import SimCrash
from sim.world import Knobs, World


def swarm_knobs(ch: Choices, **over: Any) -> Knobs:
    k = Knobs()
    k.lock_duration_s = ch.choice("k.lock", [60.0, 5.0, 60.0])
    k.bloom_capacity = ch.choice("k.bloom", [150, 12, 150])
    k.journal_mode = ch.choice("k.journal", ["DELETE", "DELETE", "WAL"])
    k.max_stage_wait_retries = ch.choice("k.waitretries", [40, 40, 40, 240])
    for a, b in over.items():
        setattr(k, a, b)
    return k


def knobs_from_dict(d: dict[str, Any]) -> Knobs:
    k = Knobs()
    for a, b in d.items():
        setattr(k, a, b)
    return k


def view_of(ctx: dict[str, Any]) -> tuple[Any, ...]:
    """Projection of a recorded stage context onto the output-key alphabet (the 'upstream data')."""
    items = []
    for k in SCALAR_KEYS + LIST_KEYS:
        if k in ctx:
            v = ctx[k]
            items.append((k, tuple(v) if isinstance(v, list) else v))
    for k, v in ctx.items():
        if k.startswith("sig_"):
            items.append((k, json.dumps(v, sort_keys=True)))
    return tuple(items)


def views_by_task(ledger: list[dict[str, Any]]) -> dict[str, set[tuple[Any, ...]]]:
    out: dict[str, set[tuple[Any, ...]]] = {}
    for e in ledger:
        out.setdefault(e["key"], set()).add(view_of(e["ctx"]))
    return out


def history_digest(h: History) -> str:
    """Digest of the *observed durable history* with run-specific identifiers mapped to stable names."""
    rows = []
    for r in h.audit:
        k = r["kind"]
        if k in ("stage", "stage_ins"):
            if r["old"] == r["new"]:
                continue
            rows.append((k, h.key_of_stage(r["row_id"]), r["old"], r["new"], _hd(r["ctx"])))
        elif k in ("task", "wf"):
            nm = (h.task_info.get(r["row_id"]) or {}).get("name", "") if k == "task" else "wf"
            rows.append((k, nm, r["old"], r["new"], _hd(r["ctx"])))
        elif k in ("q_ins", "q_del", "dlq_ins"):
            rows.append((k, r["new"] or r["old"], _hd(r["ctx"])))
    rows.append(("ledger", tuple((e["key"], e.get("it"), e["result"], e["inc"]) for e in h.ledger)))
    rows.append(("commits", tuple((c.inc, c.hi - c.lo) for c in h.commits)))
    return hashlib.sha256(json.dumps(rows, default=str).encode()).hexdigest()[:20]


def _hd(ctx: str) -> str:
    p = (ctx or "").split("|")
    return "|".join(p[:3])


def sample_of(program: Program, trace: list[Any], extra: dict[str, Any] | None = None) -> dict[str, Any]:
    s = {"program": program.spec, "choice_trace_head": trace[:40], "choice_trace_len": len(trace)}
    if extra:
        s.update(extra)
    return s


class Exec:
    """One simulated execution under engine D (optionally with crash points)."""

    def __init__(self, program: Program, knobs: Knobs, choices: Choices, opts: DOpts | None = None) -> None:
        self.program = program
        self.world = World(choices, knobs, program)
        self.world.boot()
        self.eng = EngineD(self.world, opts)
        self.wf_id: str | None = None
        self.crash_marks: list[int] = []
        self.inflight: list[str] = []

    def submit(self) -> str:
        self.wf_id = self.eng.submit(self.program)
        return self.wf_id

    def run(self, max_steps: int | None = None, on_crash: Callable[["Exec"], None] | None = None,
            sweeps: int = 1) -> Any:
        """Drain; every SimCrash is followed by the restart recipe of C01 (memory dropped, locks
        lapse, recovery sweep) and draining continues.  ``on_crash`` runs right after the crash,
        *before* the restart, so it can arm a further crash that lands inside the recovery sweep."""
        while True:
            try:
                return self.eng.drain(max_steps)
            except SimCrash:
                self._note_crash()
                if on_crash is not None:
                    on_crash(self)
                while True:
                    try:
                        self.eng.restart_with_recovery(sweeps=sweeps, lapse_first=getattr(self, "lapse_first", True))
                        break
                    except SimCrash:
                        self._note_crash()
                        if on_crash is not None:
                            on_crash(self)

    def _note_crash(self) -> None:
        w = self.world
        self.crash_marks.append(len(w.ledger))
        self.inflight.append(w.crashes[-1]["ctx"] if w.crashes else "")

    def finish(self) -> tuple[dict[str, Any], History]:
        fs = final_state(self.world, self.wf_id or "")
        h = History(self.world, self.wf_id)
        return fs, h

    def close(self) -> None:
        self.world.close()


def stats_of(w: World, eng: EngineD) -> dict[str, int]:
    return {"steps": eng.res.steps, "commits": w.commit_count, "statements": w.stmt_count,
            "clock_jumps": eng.res.clock_jumps, "handler_errors": len(eng.res.handler_errors)}


def own(vs: list[dict[str, Any]], prop: str) -> tuple[list[dict[str, Any]], list[dict[str, Any]]]:
    """Split violations into those of this check's property and incidental ones of others."""
    mine = [v for v in vs if v["property"] == prop]
    other = [v for v in vs if v["property"] != prop]
    return mine, other


# ---------------------------------------------------------------------------
# generic schedule exploration (engine D): seeded program x seeded delivery schedule,
# judged against the in-order exactly-once run of the same program
# ---------------------------------------------------------------------------
def swarm_opts(ch: Choices, reorder: bool = True, lost_ack: bool = True) -> DOpts:
    o = DOpts()
    if reorder:
        o.reorder_p = ch.choice("o.reorder", [0.5, 0.15, 0.9, 0.0])
        o.stale_bias = bool(ch.pick("o.stale", 2))
    if lost_ack:
        o.lost_ack_p = ch.choice("o.lostack", [0.0, 0.08, 0.25])
        o.lapse_p = ch.choice("o.lapse", [0.0, 0.2]) if o.lost_ack_p else 0.0
    return o


def run_exec(prog: Program, knobs: Knobs, choices: Choices, opts: DOpts | None,
             setup: Callable[[Exec], None] | None = None, max_steps: int | None = None,
             cancel_requested: bool = False, post: Callable[[Exec, dict[str, Any]], Any] | None = None) -> dict[str, Any]:
    from sim.oracles import always_on

    ex = Exec(prog, knobs, choices, opts)
    try:
        ex.submit()
        if setup is not None:
            setup(ex)
        res = ex.run(max_steps=max_steps, on_crash=getattr(ex, "on_crash_hook", None), sweeps=getattr(ex, "sweeps", 1))
        fs, h = ex.finish()
        w = ex.world
        extra = post(ex, fs) if post is not None else None
        return {"post": extra, "bus_log": list(w.bus_log),
                "fs": fs, "h": h, "res": res, "quiescent": res.quiescent, "counts": ledger_counts(w),
                "views": views_by_task(w.ledger), "ledger": list(w.ledger), "digest": history_digest(h),
                "always": always_on(h, prog, fs, res.quiescent, cancel_requested),
                "faults": dict(w.faults_fired), "probes": dict(w.probes), "sim_us": w.clock.us - seams.EPOCH_US,
                "steps": res.steps, "errors": list(res.handler_errors), "commits": w.commit_count,
                "handler_calls": dict(w.handler_calls), "handler_log": list(w.handler_log),
                "crash_marks": list(ex.crash_marks), "wf_id": ex.wf_id, "stats": stats_of(w, ex.eng)}
    finally:
        ex.close()


def _first_of(prog: Program, ref: str) -> bool:
    s_ = prog.stages[ref]
    nd_ = len(s_.get("deps") or [])
    return nd_ > 1 and (s_.get("join", "AND") == "DISCRIMINATOR"
                        or (s_.get("join") == "N_OF_M" and 0 < int(s_.get("thr", 0)) < nd_))


def sure_done(prog: Program, ref: str) -> set[str]:
    """Stages certainly finished while ``ref`` runs: its upstreams through all-of joins only."""
    if _first_of(prog, ref):
        return set()
    out: set[str] = set()
    for d in prog.stages[ref].get("deps") or []:
        out |= {d} | sure_done(prog, d)
    return out


def jump_parallel(prog: Program) -> set[str]:
    """Stages that a backward jump may re-arm *while they are running or already finished*, the schedule decides
    which: re-armed stages (target and everything downstream of it) that are neither certainly finished when
    the jumping stage runs (its upstreams through all-of joins) nor certainly unstarted (downstream of the
    jumping stage through all-of joins only).  Whether such a stage had completed (its tasks then count one more
    finished iteration), had planned its synthetic stages (re-created by the next start) or had not begun is a
    race with the jump, so its outputs - hence the view of everything downstream - and the number of
    synthetic-stage instances under it are schedule dependent."""
    early: set[str] = set()
    for ref in prog.order:
        if _first_of(prog, ref):
            early |= {ref} | prog.descendants(ref)
    out: set[str] = set()
    for j in prog.order:
        for t in prog.task_specs(j):
            if t.get("b") != "jumper" or t.get("target") not in prog.stages:
                continue
            tgt = t["target"]
            rearmed = {tgt} | prog.descendants(tgt)
            out |= rearmed - sure_done(prog, j) - {j} - (prog.descendants(j) - early)
    return out


def ref_unusable(ref: dict[str, Any], prog: Any = None) -> bool:
    """A reference run is no yardstick when it did not quiesce, a handler raised, or it ended *stuck* (queue
    drained, workflow neither final nor explicitly waiting - C05's subject, e.g. the jump-across-a-fan-in wedge):
    differential checks count such programs as inconclusive."""
    if not ref["quiescent"] or ref["errors"]:
        return True
    if prog is not None and ref.get("h") is not None:
        from sim.oracles import jump_path_not_rearmed

        if jump_path_not_rearmed(ref["h"], prog):
            return True     # the reference itself ran into the jump-across-a-fan-in wedge (KF-C05-jump-across-fanin-wedge)
    fs = ref["fs"]
    wf = fs["wf_status"]
    waiting = wf in ("BUFFERED", "PAUSED") or any(v["status"] == "SUSPENDED" for v in fs["stages"].values())
    return wf not in ("SUCCEEDED", "FAILED_CONTINUE", "TERMINAL", "CANCELED", "STOPPED", "SKIPPED") and not waiting


def count_racy(prog: Program) -> set[str]:
    """Stages whose tasks' execution *counts* are schedule dependent: a stage that a jump may hit mid-run is
    interrupted (or not) and restarted, and everything downstream of it runs once per completed pass."""
    out: set[str] = set()
    for s_ in jump_parallel(prog):
        out |= {s_} | prog.descendants(s_)
    return out


def racy_sets(prog: Program, fs0: dict[str, Any]) -> tuple[set[str], set[str]]:
    """(stages whose final status is schedule dependent, stages whose upstream view is schedule dependent).

    A halting failure cancels whatever else is running at that moment, so once the reference run contains a
    halted stage only the stages that *must* have finished before it (its ancestors through all-of joins) keep
    a schedule-independent status.  First-of / quorum joins fire while other branches still run: their own
    upstream view, and everything after them, depends on which branch finished first."""
    view_racy: set[str] = set()
    early: set[str] = set()   # stages that may start while some of their upstreams still run
    for ref in prog.order:
        s = prog.stages[ref]
        nd = len(s.get("deps") or [])
        j = s.get("join", "AND")
        if nd > 1 and (j == "DISCRIMINATOR" or (j == "N_OF_M" and 0 < int(s.get("thr", 0)) < nd)):
            view_racy |= {ref} | prog.descendants(ref)
            early |= {ref} | prog.descendants(ref)
    for s_ in jump_parallel(prog):
        # (the stage itself too: in which iterations its tasks get to run before the next jump hits is a race)
        view_racy |= {s_} | prog.descendants(s_)
    # an OR-split that does not activate a downstream stage X skips X at once, whatever X's other upstreams are
    # doing: everything after X may start while those still run, so what it sees of them is a race
    for ref in prog.order:
        for x, cond in (prog.stages[ref].get("split") or {}).items():
            if cond != "True" and x in prog.stages and len(prog.stages[x].get("deps") or []) > 1:
                view_racy |= prog.descendants(x)
                early |= prog.descendants(x)
    halted = [k for k, v in fs0["stages"].items() if v["status"] in HALT and not v["synthetic"] and k in prog.stages]
    status_racy: set[str] = set()
    if halted:
        keep: set[str] = set()
        for hs in halted:
            # CANCELED is what a halt does to *other* stages (whatever happened to be running, or was started
            # late by an in-flight completion): only a stage that halted by itself pins its ancestors
            if hs in early or fs0["stages"][hs]["status"] == "CANCELED":
                continue
            keep |= prog.ancestors(hs)
        # ... except those a jump can re-arm while the halting stage runs (a jumping stage beside or after it): a halted
        # stage's ancestor that is running its second pass when the halt cancels everything ends CANCELED
        for j in prog.order:
            for t in prog.task_specs(j):
                if t.get("b") == "jumper" and t.get("target") in prog.stages:
                    if any(j != hs and j not in sure_done(prog, hs) for hs in halted if hs in prog.stages):
                        keep -= {t["target"]} | prog.descendants(t["target"])
        status_racy = set(prog.order) - keep
    # whatever the reference run happened to do: every stage that *can* halt the workflow - a task that fails terminally
    # in a stage without continue-on-failure, a failing synthetic child, a jumping stage that can hit a configured jump
    # limit - cancels whatever is unfinished when it gets there, and which of several such stages gets there first is
    # the schedule's choice.  Only what is certainly finished before *each* of them (upstream through all-of joins)
    # keeps a schedule-independent status.
    halters: list[str] = []
    for ref in prog.order:
        sp = prog.stages[ref]
        cof = bool((sp.get("ctx") or {}).get("continuePipelineOnFailure"))
        terminal_task = any(t.get("b") in ("fail_terminal", "exc") or (t.get("b") == "transient" and str(t.get("k")) in ("inf", "10", "11", "13"))
                            for t in prog.task_specs(ref))
        bad_child = bool((sp.get("synth") or {}).get("bad") or (sp.get("synth") or {}).get("before_fail"))
        limited_jump = any(t.get("b") == "jumper" for t in prog.task_specs(ref)) and (prog.spec.get("wf_ctx") or {}).get("_max_jumps") is not None
        if (terminal_task and not cof) or bad_child or limited_jump:
            halters.append(ref)
    if halters:
        keep2: set[str] | None = None
        jump_targets = {t["target"] for j in prog.order for t in prog.task_specs(j) if t.get("b") == "jumper"}
        for hs in halters:
            # (a stage that is the explicit target of a jump starts without its join: nothing is certainly done before it;
            # the same holds for everything downstream of such a target)
            bypassed = hs in jump_targets or bool(prog.ancestors(hs) & jump_targets)
            sd = set() if bypassed else sure_done(prog, hs)
            keep2 = sd if keep2 is None else (keep2 & sd)
        keep2 = keep2 or set()
        # (and nothing a jump can re-arm is certain either)
        for j in prog.order:
            for t in prog.task_specs(j):
                if t.get("b") == "jumper" and t.get("target") in prog.stages:
                    keep2 -= {t["target"]} | prog.descendants(t["target"])
        status_racy |= set(prog.order) - keep2
    for ref in prog.order:
        if prog.stages[ref].get("choice"):
            status_racy |= {ref} | prog.descendants(ref)
    # a first-of / quorum join that an OR-split does not activate: whether it is skipped or has already started on
    # another upstream's completion when the split is evaluated is the schedule's choice
    for ref in prog.order:
        for x, cond in (prog.stages[ref].get("split") or {}).items():
            if cond != "True" and x in prog.stages and _first_of(prog, x):
                status_racy |= {x} | prog.descendants(x)
    return status_racy, view_racy


def compare_outcome(prog: Program, ref: dict[str, Any], run: dict[str, Any]) -> list[tuple[str, str]]:
    """Differences between a run and the reference run that the engine's legitimate raciness cannot explain."""
    problems: list[tuple[str, str]] = []
    fs0, fs = ref["fs"], run["fs"]
    status_racy, view_racy = racy_sets(prog, fs0)
    if fs["wf_status"] != fs0["wf_status"]:
        problems.append((f"workflow-status-differs:{fs0['wf_status']}->{fs['wf_status']}",
                         f"workflow ended {fs['wf_status']}, in-order exactly-once run ends {fs0['wf_status']}; "
                         f"stages={ {k: v['status'] for k, v in fs['stages'].items()} }"))
    diff = {}
    par = jump_parallel(prog)
    for k in set(fs["stages"]) | set(fs0["stages"]):
        if k.split("/")[0] in status_racy:
            continue
        if "/" in k and k.split("/")[0] in par:
            continue     # synthetic stages of a stage that a jump may hit mid-run: instance count is a race
        a = (fs0["stages"].get(k) or {}).get("status")
        b = (fs["stages"].get(k) or {}).get("status")
        if a != b:
            diff[k] = (a, b)
    if diff:
        kinds = ",".join(sorted({f"{a}->{b}" for a, b in diff.values()}))
        problems.append(("stage-status-differs:" + kinds, f"stage statuses (reference, this run) differ: {diff}"))
    for t, vset in sorted(run["views"].items()):
        top = t.split("_")[1] if t.count("_") >= 2 else t
        if top in view_racy or top in status_racy:
            continue
        v0 = ref["views"].get(t)
        if v0 is not None and not vset <= v0:
            problems.append(("upstream-data-differs",
                             f"task {t} saw upstream data {sorted(vset - v0)} never shown in the reference run ({sorted(v0)})"))
            break
    return problems


def task_kind(prog: Program, task: str) -> str | None:
    parts = task.split("_")
    if len(parts) < 3 or parts[1] not in prog.stages:
        return None
    try:
        return prog.task_specs(parts[1])[int(parts[2])]["b"]
    except Exception:
        return "ok"


def new_outcome() -> dict[str, Any]:
    return {"violations": [], "execs": 0, "digests": {}, "stats": {}, "faults": {}, "probes": {},
            "samples": [], "sim_us": 0, "inconclusive": 0}


def state_hashes(h: History) -> set[str]:
    """Distinct durable states visited: hash of (stage -> status, task -> status, workflow status, queue message
    type multiset) at every commit boundary, with run-specific ids mapped to stable names."""
    st: dict[str, str] = {}
    q: dict[str, str] = {}
    out: set[str] = set()
    bounds = set(h.his)
    for r in h.audit:
        k = r["kind"]
        if k in ("stage", "stage_ins"):
            st["s:" + h.key_of_stage(r["row_id"])] = r["new"]
        elif k in ("task", "task_ins"):
            ti = h.task_info.get(r["row_id"]) or {}
            st["t:" + str(ti.get("stage", ""))[-6:] + ":" + str(ti.get("name"))] = r["new"]
        elif k in ("wf", "wf_ins"):
            st["wf"] = r["new"]
        elif k == "q_ins":
            q[r["row_id"]] = r["new"]
        elif k == "q_del":
            q.pop(r["row_id"], None)
        if r["seq"] in bounds:
            key = repr((sorted(st.items()), sorted(q.values())))
            out.add(hashlib.sha1(key.encode()).hexdigest()[:12])
    return out


def absorb(out: dict[str, Any], r: dict[str, Any], nontrivial: bool) -> None:
    out["execs"] += 1
    if r.get("h") is not None:
        sh = out.setdefault("state_hashes", set())
        if len(sh) < 300000:
            sh |= state_hashes(r["h"])
    out["sim_us"] += r["sim_us"]
    out["digests"][r["digest"]] = bool(out["digests"].get(r["digest"])) or nontrivial
    for key in ("faults", "probes", "stats"):
        for a, b in r.get(key, {}).items():
            out[key][a] = out[key].get(a, 0) + b


# ---------------------------------------------------------------------------
# engine W runs
# ---------------------------------------------------------------------------
def run_w(prog: Program, knobs: Knobs, choices: Choices, nworkers: int = 2, strategy: str = "random",
          pct_depth: int = 2, setup: Callable[[Any, Any], None] | None = None, step_cap: int = 60000,
          extra_workers: list[Callable[[Any], Callable[[Any], None]]] | None = None) -> dict[str, Any]:
    """One execution under the interleaving engine: ``nworkers`` threads looping process_one."""
    from sim.engine_w import Scheduler, processor_worker
    from sim.oracles import always_on

    w = World(choices, knobs, prog)
    sched = None
    try:
        w.boot()
        eng = EngineD(w)          # only used for submit()
        wf_id = eng.submit(prog)
        sched = Scheduler(w, strategy=strategy, pct_depth=pct_depth, step_cap=step_cap)
        for _ in range(nworkers):
            sched.add(processor_worker(w))
        for mk in extra_workers or []:
            sched.add(mk(w))
        if setup is not None:
            setup(w, sched)
        w.task_yield = lambda what: sched.yield_point("task")
        sched.start()
        end = sched.run()
        errs = sched.errors()
        stats = {"w_steps": sched.steps, "preemptions": sched.preemptions, "lock_waits": sched.lock_waits,
                 "deadlocks_resolved": sched.deadlocks_resolved, "commits": w.commit_count, "statements": w.stmt_count}
        sched.stop()
        sched = None
        w.task_yield = None
        fs = final_state(w, wf_id)
        h = History(w, wf_id)
        quiescent = end == "quiescent" and not errs
        return {"bus_log": list(w.bus_log),
                "fs": fs, "h": h, "end": end, "quiescent": quiescent, "counts": ledger_counts(w),
                "views": views_by_task(w.ledger), "ledger": list(w.ledger), "digest": history_digest(h),
                "always": always_on(h, prog, fs, quiescent), "faults": dict(w.faults_fired), "probes": dict(w.probes),
                "sim_us": w.clock.us - seams.EPOCH_US, "steps": stats["w_steps"], "errors": errs, "notes": list(w.notes),
                "commits": w.commit_count, "handler_calls": dict(w.handler_calls), "handler_log": list(w.handler_log),
                "wf_id": wf_id, "stats": stats, "crash_marks": []}
    finally:
        if sched is not None:
            try:
                sched.stop()
            except Exception:
                pass
        w.close()
