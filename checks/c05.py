"""C05 -- when the engine goes quiet every workflow is finished or explicitly waiting.

Engine D: programs with failing branches next to running ones, early-firing joins, synthetic
before/after/on-failure stages, jump loops; every delivery order.  Oracle at the quiescent point
(queue table empty, no handler running): finished-or-waiting invariant of DESIGN.md C05.
"""
from __future__ import annotations

from typing import Any

from sim.oracles import check_quiescent

from .dflow import DCheck, one_violation

PROFILE = {
    "max_stages": 7, "joins": ["AND", "AND", "DISCRIMINATOR", "N_OF_M", "OR"],
    "behaviours": {"ok": 10, "fail_terminal": 3, "fail_continue": 2, "poller": 2, "transient": 2, "exc": 2},
    "synth_p": 0.3, "synth_fail_p": 0.3, "loop_p": 0.15, "or_split_p": 0.15, "cof_p": 0.2, "disabled_p": 0.08,
}


def judge(prog: Any, ref: Any, run: dict[str, Any], info: dict[str, Any]) -> list[dict[str, Any]]:
    problems = []
    if not run["quiescent"]:
        problems.append(("never-quiet", f"queue never drained: {run['res'].aborted}", "never-quiet"))
    else:
        for q in check_quiescent(run["fs"]):
            problems.append((q["cls"], q["msg"], q["sig"].split(":", 1)[1]))
    return one_violation("C05", problems, run["h"], prog=prog, fs=run["fs"])


CHECK = DCheck("C05", PROFILE, judge, need_ref=False)
CHECK.w_share = 0.2
run_one = CHECK.run_one
replay_one = CHECK.replay_one
