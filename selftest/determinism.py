"""Determinism self-test over the real checks: every check's worker is run twice (fresh interpreters, same
seed and hash seed) on a slice of run indices; the sets of history digests, the execution counts and the
fault/probe counters must be identical.  Also run at a second PYTHONHASHSEED to show which histories change.

    python -m selftest.determinism [runs_per_check]
"""
from __future__ import annotations

import concurrent.futures as cf
import json
import os
import subprocess
import sys
import tempfile
import time

ROOT = os.path.dirname(os.path.dirname(os.path.abspath(__file__)))
PY = os.environ.get("VERIF_PYTHON", "/venv/bin/python")
CHECKS = ["C02", "C03", "C04", "C05", "C06", "C07", "C08", "C09", "C10", "C11", "C12", "C13", "C14", "C15", "C16", "C17", "C18"]


def run(check: str, start: int, count: int, hs: str, tag: str, d: str) -> dict:
    out = os.path.join(d, f"{check}.{tag}.json")
    env = dict(os.environ, PYTHONHASHSEED=hs, TZ="UTC", PYTHONPATH=ROOT, PYTHONDONTWRITEBYTECODE="1")
    p = subprocess.run([PY, "-m", "sim.harness", "--worker", check, "quick", "77", str(start), str(count),
                        str(time.time() + 3000), out], cwd=ROOT, env=env, capture_output=True, text=True, timeout=3000)
    if p.returncode != 0 or not os.path.exists(out):
        return {"error": p.stderr[-1000:]}
    r = json.load(open(out))
    return {"digests": sorted(r["digests"].items()), "execs": r["execs"], "faults": r["faults"], "probes": r["probes"],
            "viol": sorted(v["sig"] for v in r["violations"]), "herr": len(r["harness_errors"])}


def main() -> int:
    n = int(sys.argv[1]) if len(sys.argv) > 1 else 6
    d = tempfile.mkdtemp(prefix="detself_")
    jobs = {}
    bad = []
    t0 = time.time()
    with cf.ThreadPoolExecutor(max_workers=int(os.environ.get("VERIF_PROCS", "12"))) as ex:
        for c in CHECKS:
            for tag, hs in (("a", "4242"), ("b", "4242"), ("c", "99")):
                jobs[(c, tag)] = ex.submit(run, c, 100, n, hs, tag, d)
    changed = 0
    total = 0
    for c in CHECKS:
        a, b, c2 = (jobs[(c, t)].result() for t in ("a", "b", "c"))
        if "error" in a or "error" in b:
            bad.append((c, "worker error", a.get("error") or b.get("error")))
            continue
        if a != b:
            bad.append((c, "same seed, same hash seed, different outcome",
                        [x for x in a["digests"] if x not in b["digests"]][:3]))
        if "error" not in c2:
            total += len(a["digests"])
            changed += len(set(a["digests"]) - set(c2["digests"]))
    import shutil

    shutil.rmtree(d, ignore_errors=True)
    if bad:
        for x in bad:
            print("NON-DETERMINISTIC", x, file=sys.stderr)
        return 2
    print(f"determinism ok: {len(CHECKS)} checks x {n} seeded runs x 2 fresh interpreters identical "
          f"(digests, execution counts, fault and probe counters); {changed}/{total} histories differ under another "
          f"PYTHONHASHSEED; wall {time.time() - t0:.0f}s")
    return 0


if __name__ == "__main__":
    sys.exit(main())
