"""Sensitivity self-test: a catalogue of deliberate breakages, each applied to a scratch copy of the
repository (outside /repo and /verif, removed afterwards) and run against the check that must catch it.

    python -m selftest.mutants [name ...]        # all, or the named ones
    VERIF_MUT_TIER=quick|thorough  VERIF_MUT_BUDGET_S=<seconds per check>

A mutant is "caught" when the named check exits 1 with a VIOLATION line (KNOWN-FINDING lines do not count).
"""
from __future__ import annotations

import os
import shutil
import subprocess
import sys
import tempfile

ROOT = os.path.dirname(os.path.dirname(os.path.abspath(__file__)))
REPO = os.environ.get("VERIF_REPO_ORIG", "/repo")

# (name, file (under src/stabilize), old text, new text, [checks expected to catch it])
MUTANTS = [
    ("claim-ignores-version", "persistence/sqlite/transaction.py",
     "                    WHERE id = :id AND version = :version AND status = :expected_phase",
     "                    WHERE id = :id AND status = :expected_phase AND :version >= 0", ["C07"]),
    ("txn-store-ignores-version", "persistence/sqlite/transaction.py",
     "                    WHERE id = :id AND version = :version\n                    \"\"\",\n                    {\n                        \"id\": stage.id,\n                        \"status\": stage.status.name,\n                        \"context\": json.dumps(stage.context, default=str),\n                        \"outputs\": json.dumps(stage.outputs, default=str),\n                        \"start_time\": stage.start_time,\n                        \"end_time\": stage.end_time,\n                        \"version\": stage.version,\n                    },\n                )\n\n            if cursor.rowcount == 0:",
     "                    WHERE id = :id AND :version >= 0\n                    \"\"\",\n                    {\n                        \"id\": stage.id,\n                        \"status\": stage.status.name,\n                        \"context\": json.dumps(stage.context, default=str),\n                        \"outputs\": json.dumps(stage.outputs, default=str),\n                        \"start_time\": stage.start_time,\n                        \"end_time\": stage.end_time,\n                        \"version\": stage.version,\n                    },\n                )\n\n            if cursor.rowcount == 0:", ["C07"]),
    ("recovery-no-pending-guard", "recovery.py",
     "                        if self.queue.has_pending_message_for_task(task.id):",
     "                        if False and self.queue.has_pending_message_for_task(task.id):", ["C10"]),
    ("completion-event-before-txn", "handlers/complete_task.py",
     "            with self.repository.transaction(self.queue) as txn:\n                txn.store_stage(stage)\n                record_completion_event()\n\n                # Atomic deduplication",
     "            record_completion_event()\n            with self.repository.transaction(self.queue) as txn:\n                txn.store_stage(stage)\n\n                # Atomic deduplication", ["C13"]),
    ("acquire-claim-always-true", "persistence/sqlite/transaction.py",
     "        owner_id = row[0]\n        if owner_id == stage_id:\n            return True",
     "        owner_id = row[0]\n        return True", ["C11"]),
    ("ack-before-handle", "queue/processor/processor.py",
     "            try:\n                self._handle_message(message)\n                self.queue.ack(message)\n                return True",
     "            try:\n                self.queue.ack(message)\n                self._handle_message(message)\n                return True", ["C01"]),
    ("reset-keeps-outputs", "handlers/jump_to_stage/reset.py",
     "    stage.end_time = None\n    stage.outputs = {}",
     "    stage.end_time = None", ["C16"]),
    ("runtask-ignores-cancel", "handlers/run_task/handler.py",
     "            if execution.is_canceled:",
     "            if False and execution.is_canceled:", ["C17"]),
    ("buffered-signal-not-consumed", "handlers/run_task/result.py",
     "    buffered = stage.context.get(\"_buffered_signals\", [])\n    if buffered:",
     "    buffered = stage.context.get(\"_buffered_signals\", [])\n    if False and buffered:", ["C18"]),
    ("jump-limit-off-by-one", "handlers/jump_to_stage/handler.py",
     "        if jump_count >= max_jumps:\n            logger.error(\n                \"Max jump count exceeded",
     "        if jump_count > max_jumps:\n            logger.error(\n                \"Max jump count exceeded", ["C15"]),
    ("dlq-move-two-commits", "queue/sqlite/dlq.py",
     "        if not row:\n            logger.warning(\"Message %s not found for DLQ move\", msg_id)\n            return\n",
     "        if not row:\n            logger.warning(\"Message %s not found for DLQ move\", msg_id)\n            return\n        conn.commit()\n", ["C08"]),
    ("retry-limit-lost-again", "queue/sqlite/queue.py",
     "        message.attempts = (message.attempts or 0) + attempts",
     "        message.attempts = attempts + 1", ["C14"]),
    ("cancel-overwrites-completed-stage", "handlers/cancel_stage.py",
     ["            if stage.status.is_complete:\n                logger.debug(\n                    \"Ignoring CancelStage",
      "            self.set_stage_status(stage, WorkflowStatus.CANCELED)"],
     ["            if stage.status == WorkflowStatus.CANCELED:\n                logger.debug(\n                    \"Ignoring CancelStage",
      "            stage.status = WorkflowStatus.CANCELED"], ["C06"]),
    ("workflow-succeeds-when-any-stage-done", "handlers/complete_workflow.py",
     "        if all(s in CONTINUABLE_STATUSES for s in statuses):",
     "        if any(s in CONTINUABLE_STATUSES for s in statuses):", ["C05"]),
    ("replay-as-of-off-by-one", "events/replay.py",
     "                if e.sequence <= as_of_sequence",
     "                if e.sequence < as_of_sequence", ["C12"]),
    ("dedup-skips-db-after-reset", "queue/processor/mixins.py",
     "            if dedup.maybe_seen(message_id) or not (trust_negative and dedup.authoritative):",
     "            if dedup.maybe_seen(message_id):", ["C09"]),
    ("and-join-ignores-one-upstream", "dag/readiness.py",
     "        if upstream.status not in CONTINUABLE_STATUSES:\n            not_complete_ids.append(upstream.id)\n            if upstream.status in ACTIVE_STATUSES:\n                active_ids.append(upstream.id)\n\n    if not not_complete_ids:\n        return ReadinessResult(\n            phase=PredicatePhase.READY,\n            reason=\"All upstream stages complete\",",
     "        if upstream.status not in CONTINUABLE_STATUSES:\n            not_complete_ids.append(upstream.id)\n            if upstream.status in ACTIVE_STATUSES:\n                active_ids.append(upstream.id)\n\n    if len(not_complete_ids) <= (1 if len(upstream_stages) > 2 else 0):\n        return ReadinessResult(\n            phase=PredicatePhase.READY,\n            reason=\"All upstream stages complete\",", ["C03"]),
]


def run(names: list[str]) -> int:
    tier = os.environ.get("VERIF_MUT_TIER", "quick")
    budget = os.environ.get("VERIF_MUT_BUDGET_S", "")
    missed = []
    for name, rel, old, new, checks in MUTANTS:
        if names and name not in names:
            continue
        scratch = tempfile.mkdtemp(prefix="stabmut_", dir=os.environ.get("VERIF_MUT_DIR", "/tmp"))
        try:
            shutil.copytree(os.path.join(REPO, "src"), os.path.join(scratch, "src"))
            p = os.path.join(scratch, "src", "stabilize", rel)
            s = open(p).read()
            pairs = list(zip(old, new)) if isinstance(old, list) else [(old, new)]
            if any(o not in s for o, _ in pairs):
                print(f"{name}: ANCHOR NOT FOUND in {rel} (catalogue out of date)")
                missed.append(name + ":anchor")
                continue
            for o, n in pairs:
                s = s.replace(o, n, 1)
            open(p, "w").write(s)
            for chk in checks:
                env = dict(os.environ, VERIF_REPO=scratch)
                if budget:
                    env["VERIF_BUDGET_S"] = budget
                r = subprocess.run([os.path.join(ROOT, "check"), chk, "--tier", tier], cwd=ROOT, env=env,
                                   capture_output=True, text=True)
                vio = [l for l in r.stdout.splitlines() if l.startswith("VIOLATION")]
                status = "CAUGHT" if (r.returncode == 1 and vio) else ("harness-trouble" if r.returncode == 2 else "MISSED")
                detail = ""
                if vio:
                    nxt = r.stdout.splitlines()[r.stdout.splitlines().index(vio[0]) + 1][:160] if len(r.stdout.splitlines()) > 1 else ""
                    detail = nxt.strip()
                elif r.returncode == 2:
                    detail = r.stderr.strip()[:200]
                print(f"{name:42s} {chk}: {status}  {detail}")
                if status != "CAUGHT":
                    missed.append(f"{name}:{chk}")
        finally:
            shutil.rmtree(scratch, ignore_errors=True)
    print("missed:", missed)
    return 1 if missed else 0


if __name__ == "__main__":
    sys.exit(run(sys.argv[1:]))
