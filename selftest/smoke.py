"""Setup-time self-test: the simulator imports, its seams are complete, and a run is a pure function of
(seed, hash seed, code): N seeds, each executed in two fresh interpreters, digests must agree.

    python -m selftest.smoke [n_seeds]
"""
from __future__ import annotations

import json
import os
import subprocess
import sys

ROOT = os.path.dirname(os.path.dirname(os.path.abspath(__file__)))
PY = os.environ.get("VERIF_PYTHON", "/venv/bin/python")


def one(seed: int) -> dict[str, object]:
    import logging

    logging.disable(logging.CRITICAL)
    sys.path.insert(0, ROOT)
    from sim.harness import setup_sys_path

    setup_sys_path()
    from checks.common import run_exec, swarm_knobs, swarm_opts
    from sim import seams
    from sim.choices import Choices
    from sim.programs import gen_program

    ch = Choices(seed)
    prog = gen_program(ch, {"synth_p": 0.3, "loop_p": 0.3})
    knobs = swarm_knobs(ch)
    opts = swarm_opts(ch)

    def setup(ex):  # crash in the middle as well: restart path must be deterministic too
        if seed % 2:
            ex.world.crash_at = (ex.eng.client_commits + 20 + seed % 17, "after")

    canary = {"n": 0}
    real_sleep = seams.REAL.sleep
    r = run_exec(prog, knobs, ch, opts, setup=setup, max_steps=1500)
    _ = (canary, real_sleep)
    return {"seed": seed, "digest": r["digest"], "trace_len": len(ch.trace), "commits": r["commits"],
            "unpatched": seams.unpatched_clock_refs(), "ledger": len(r["ledger"])}


def main() -> int:
    if len(sys.argv) > 2 and sys.argv[1] == "--one":
        print(json.dumps([one(int(s)) for s in sys.argv[2:]]))
        return 0
    n = int(sys.argv[1]) if len(sys.argv) > 1 else 6
    seeds = [str(1000 + i) for i in range(n)]
    outs = []
    for hs in ("11", "11", "12345"):
        env = dict(os.environ, PYTHONHASHSEED=hs, TZ="UTC", PYTHONPATH=ROOT, PYTHONDONTWRITEBYTECODE="1")
        p = subprocess.run([PY, "-m", "selftest.smoke", "--one"] + seeds, cwd=ROOT, env=env, capture_output=True,
                           text=True, timeout=300)
        if p.returncode != 0:
            print("selftest worker failed:", p.stderr[-2000:], file=sys.stderr)
            return 2
        outs.append(json.loads(p.stdout.strip().splitlines()[-1]))
    a, b, c = outs
    bad = [(x["seed"], x["digest"], y["digest"]) for x, y in zip(a, b) if x != y]
    if bad:
        print("NON-DETERMINISTIC: same seed + same hash seed gave different histories:", bad, file=sys.stderr)
        return 2
    if any(x["unpatched"] for x in a):
        print("SEAM INCOMPLETE: real clock still referenced:", a[0]["unpatched"], file=sys.stderr)
        return 2
    differs = sum(1 for x, y in zip(a, c) if x["digest"] != y["digest"])
    print(f"selftest ok: {n} seeds x 2 fresh interpreters identical; {differs}/{n} histories change with the hash seed; "
          f"commits per run {[x['commits'] for x in a]}")
    return 0


if __name__ == "__main__":
    sys.exit(main())
