"""Regenerate MANIFEST.json from checks/meta.py:  python tools_manifest.py"""
import json
import subprocess
import sys

sys.path.insert(0, "/verif")
from checks.meta import INFO  # noqa: E402

props = [json.loads(l) for l in open("/verif/properties.jsonl")]
ids = [p["id"] for p in props]
NA = {
    "C19": "pure round-trip of two serialisers quantified over inputs only: no schedule, clock, fault or interleaving enters the statement, so deterministic simulation has nothing to decide (DESIGN.md section 3, C19)",
    "C20": "pure functions of their arguments (graph validation, topological sort, expression evaluator): a for-all-inputs claim with nothing for a scheduler or fault injector to decide (DESIGN.md section 3, C20)",
}
NOTES = {}
checks = []
for pid in ids:
    if pid in INFO:
        i = INFO[pid]
        checks.append({
            "property_id": pid,
            "quick_cmd": f"./check {pid} --tier quick",
            "thorough_cmd": f"./check {pid} --tier thorough",
            "evidence_file": f"/verif/evidence/{pid}.json",
            "replay_cmd_template": f"./check {pid} --replay {{path}}",
            "engine": i.get("engine", "sim"),
            "level_claimed": {"category": i["level"], "text": i.get("level_text", i["rule"]), "design_ref": f"DESIGN.md section 3 ({pid})"},
            "level_note": "; ".join(i.get("assumptions", [])),
            "technique": i["technique"],
        })
not_applicable = [{"property_id": p, "reason": NA.get(p, "check not built yet in this session (see DESIGN.md section 8, status)")}
                  for p in ids if p not in INFO]
hooks = subprocess.run(["git", "-C", "/repo", "log", "--format=%h %s", "a347b9e..HEAD"], capture_output=True, text=True).stdout.strip().splitlines()
m = {
    "version": 1,
    "setup_cmd": "cd /verif && TZ=UTC /venv/bin/python -m selftest.smoke 4",
    "hooks": {
        "guard": "STABILIZE_VERIF",
        "enable": "none needed: every seam is installed from outside (module attributes, constructor injection, SQLite function override, connection factory, ULID generator slot); no hook commits exist in /repo",
        "baseline_off_cmd": "cd /repo && /venv/bin/python -m pytest -ra -q -p no:cacheprovider --timeout=900 --continue-on-collection-errors",
        "source_commits": [],
        "add_only": True,
    },
    "engines": [
        {"name": "D", "path": "sim/engine_d.py", "kind_free_text": "single worker, seeded delivery schedule (reorder, lost ack, lock lapse), discrete-event clock",
         "serves_properties": [p for p in ids if p in INFO]},
        {"name": "K", "path": "sim/engine_d.py + checks/common.py:Exec", "kind_free_text": "crash at a chosen commit, restart with all memory dropped, lock expiry, recovery sweep, drain",
         "serves_properties": [p for p in ("C01", "C06", "C09", "C10", "C13", "C18") if p in INFO]},
        {"name": "W", "path": "sim/engine_w.py", "kind_free_text": "2-3 workers as baton-passed real threads pre-empted at SQL statements / commits / sleeps / task boundaries over real SQLite locking",
         "serves_properties": [p for p in ("C04", "C07", "C08", "C11", "C13", "C18") if p in INFO]},
    ],
    "checks": checks,
    "not_applicable": not_applicable,
    "notes": "fix commits in /repo (not hooks): " + " | ".join(hooks),
}
json.dump(m, open("/verif/MANIFEST.json", "w"), indent=1)
print("checks:", [c["property_id"] for c in checks], "n/a:", [x["property_id"] for x in not_applicable])
